package main

// C20: the json-patch command. Under the symbolic executor the real main() runs with its I/O calls
// redirected to the stubs below (go-flags delivers the -p values by calling the real
// FileFlag.UnmarshalFlag; os.Stat / ReadFile / os.Open answer from the scenario; the three standard streams
// are handles whose Read/Write (from the command or from the standard library on its behalf: io.ReadAll,
// bufio, json.Decoder, io.Copy) are served from the scenario; log.Fatal* and os.Exit record the exit status
// and end the run; fmt.Print* / log.Print* record stdout / stderr). In the native twin the same scenario is
// written to real files and the REAL BINARY built from this directory is executed.

import (
	"bytes"
	"errors"
	"io"
	"io/fs"
	"os"
	"os/exec"
	"path/filepath"
	"reflect"
	"strconv"
	"time"

	jsonpatch "github.com/evanphx/json-patch/v5"
	"github.com/evanphx/json-patch/v5/zzverif/vx"
)

const (
	fkGood      = iota // well-formed patch that applies
	fkFails            // well-formed patch that does not apply (test fails / member missing)
	fkMalformed        // not a patch document
	fkMissing          // no such file
	fkDir              // a directory
	nFileKinds
)

type vxFile struct {
	name    string
	kind    int
	content []byte
}

var vxScn struct {
	files  []vxFile
	stdin  []byte
	in     vxHandle
	open   []vxHandle
	stdout []byte
	stderr []byte
	exit   int
}

type vxExit struct{}

// ---------------------------------------------------------------- stubs (symbolic executor only)

func vxFind(name string) *vxFile {
	for k := range vxScn.files {
		if vxScn.files[k].name == name || "/abs/"+vxScn.files[k].name == name {
			return &vxScn.files[k]
		}
	}
	return nil
}

func vxstub_flags_Parse(data interface{}) ([]string, error) {
	o := data.(*opts)
	for _, f := range vxScn.files {
		var ff FileFlag
		if err := ff.UnmarshalFlag(f.name); err != nil {
			return nil, err
		}
		o.PatchFilePaths = append(o.PatchFilePaths, ff)
	}
	return nil, nil
}

type vxInfo struct {
	name string
	dir  bool
}

func (i vxInfo) Name() string       { return i.name }
func (i vxInfo) Size() int64        { return 0 }
func (i vxInfo) Mode() fs.FileMode  { return 0 }
func (i vxInfo) ModTime() time.Time { return time.Time{} }
func (i vxInfo) IsDir() bool        { return i.dir }
func (i vxInfo) Sys() interface{}   { return nil }

func vxstub_os_Stat(name string) (os.FileInfo, error) {
	f := vxFind(name)
	if f == nil || f.kind == fkMissing {
		return nil, errors.New("stat " + name + ": no such file or directory")
	}
	return vxInfo{name: name, dir: f.kind == fkDir}, nil
}

func vxstub_filepath_Abs(p string) (string, error) { return "/abs/" + p, nil }

func vxstub_ioutil_ReadFile(name string) ([]byte, error) {
	f := vxFind(name)
	if f == nil || f.kind == fkMissing {
		return nil, errors.New("open " + name + ": no such file or directory")
	}
	if f.kind == fkDir {
		return nil, errors.New("read " + name + ": is a directory")
	}
	return append([]byte(nil), f.content...), nil
}

// File handles. The command's standard streams are three distinct handles (set by the harness under the
// executor); every read or write the command or the standard library makes on an *os.File arrives here.
var vxStdin, vxStdout, vxStderr = new(os.File), new(os.File), new(os.File)

type vxHandle struct {
	f    *os.File
	data []byte
	pos  int
}

func vxHandleOf(f *os.File) *vxHandle {
	if f == vxStdin {
		return &vxScn.in
	}
	for k := range vxScn.open {
		if vxScn.open[k].f == f {
			return &vxScn.open[k]
		}
	}
	return nil
}

func vxstub_os_Open(name string) (*os.File, error) {
	f := vxFind(name)
	if f == nil || f.kind == fkMissing {
		return nil, errors.New("open " + name + ": no such file or directory")
	}
	h := vxHandle{f: new(os.File)}
	if f.kind == fkDir {
		h.pos = -1
	} else {
		h.data = append([]byte(nil), f.content...)
	}
	vxScn.open = append(vxScn.open, h)
	return h.f, nil
}

func vxstub_file_Read(f *os.File, b []byte) (int, error) {
	h := vxHandleOf(f)
	if h == nil {
		return 0, os.ErrInvalid
	}
	if h.pos < 0 {
		return 0, errors.New("read: is a directory")
	}
	if len(b) == 0 {
		return 0, nil
	}
	if h.pos >= len(h.data) {
		return 0, io.EOF
	}
	n := copy(b, h.data[h.pos:])
	h.pos += n
	return n, nil
}

func vxstub_file_Write(f *os.File, b []byte) (int, error) {
	switch f {
	case vxStdout:
		vxScn.stdout = append(vxScn.stdout, b...)
	case vxStderr:
		vxScn.stderr = append(vxScn.stderr, b...)
	default:
		return 0, os.ErrInvalid
	}
	return len(b), nil
}

func vxstub_file_WriteString(f *os.File, s string) (int, error) {
	return vxstub_file_Write(f, []byte(s))
}

func vxstub_file_WriteTo(f *os.File, w io.Writer) (int64, error) {
	h := vxHandleOf(f)
	if h == nil || h.pos < 0 {
		return 0, os.ErrInvalid
	}
	n, err := w.Write(h.data[h.pos:])
	h.pos += n
	return int64(n), err
}

func vxstub_file_ReadFrom(f *os.File, r io.Reader) (int64, error) {
	var total int64
	buf := make([]byte, 64)
	for {
		n, err := r.Read(buf)
		if n > 0 {
			if _, werr := vxstub_file_Write(f, buf[:n]); werr != nil {
				return total, werr
			}
			total += int64(n)
		}
		if err == io.EOF {
			return total, nil
		}
		if err != nil {
			return total, err
		}
	}
}

func vxstub_file_Close(f *os.File) error { return nil }

func vxstub_os_Exit(code int) {
	vxScn.exit = code
	panic(vxExit{})
}

// Formatting: the verbs and operand types a command of this size can plausibly use; anything else renders
// as '?', which the real binary will not print, so such a path ends UNCONFIRMED (inconclusive), never as a
// false alarm.
func vxOperand(dst []byte, v interface{}, verb byte) []byte {
	switch x := v.(type) {
	case nil:
		return append(dst, "<nil>"...)
	case string:
		return append(dst, x...)
	case []byte:
		if verb == 's' {
			return append(dst, x...)
		}
		dst = append(dst, '[')
		for k, c := range x {
			if k > 0 {
				dst = append(dst, ' ')
			}
			dst = strconv.AppendInt(dst, int64(c), 10)
		}
		return append(dst, ']')
	case int:
		return strconv.AppendInt(dst, int64(x), 10)
	case error:
		return append(dst, x.Error()...)
	}
	// named string and byte-slice types (json.RawMessage, FileFlag) print like their underlying type
	rv := reflect.ValueOf(v)
	if rv.Kind() == reflect.String {
		return append(dst, rv.String()...)
	}
	if rv.Kind() == reflect.Slice && rv.Type().Elem().Kind() == reflect.Uint8 {
		return vxOperand(dst, rv.Bytes(), verb)
	}
	return append(dst, '?')
}

func vxSprintf(format string, a []interface{}) []byte {
	var out []byte
	arg := 0
	for k := 0; k < len(format); k++ {
		c := format[k]
		if c != '%' {
			out = append(out, c)
			continue
		}
		k++
		if k >= len(format) {
			out = append(out, "%!(NOVERB)"...)
			break
		}
		verb := format[k]
		if verb == '%' {
			out = append(out, '%')
			continue
		}
		if arg >= len(a) {
			out = append(out, '%', '!', verb)
			out = append(out, "(MISSING)"...)
			continue
		}
		if verb == 's' || verb == 'v' || (verb == 'd' && isInt(a[arg])) {
			out = vxOperand(out, a[arg], verb)
		} else {
			out = append(out, '?')
		}
		arg++
	}
	if arg < len(a) {
		out = append(out, "%!(EXTRA ?)"...)
	}
	return out
}

func isInt(v interface{}) bool { _, ok := v.(int); return ok }

func isString(v interface{}) bool { _, ok := v.(string); return ok }

func vxSprint(a []interface{}, ln bool) []byte {
	var out []byte
	for k, v := range a {
		if k > 0 && (ln || (!isString(v) && !isString(a[k-1]))) {
			out = append(out, ' ')
		}
		out = vxOperand(out, v, 'v')
	}
	if ln {
		out = append(out, '\n')
	}
	return out
}

func vxWriterTo(w io.Writer, b []byte) (int, error) {
	if f, ok := w.(*os.File); ok {
		return vxstub_file_Write(f, b)
	}
	return w.Write(b)
}

func vxstub_fmt_Printf(format string, a ...interface{}) (int, error) {
	return vxstub_file_Write(vxStdout, vxSprintf(format, a))
}
func vxstub_fmt_Print(a ...interface{}) (int, error) {
	return vxstub_file_Write(vxStdout, vxSprint(a, false))
}
func vxstub_fmt_Println(a ...interface{}) (int, error) {
	return vxstub_file_Write(vxStdout, vxSprint(a, true))
}
func vxstub_fmt_Fprintf(w io.Writer, format string, a ...interface{}) (int, error) {
	return vxWriterTo(w, vxSprintf(format, a))
}
func vxstub_fmt_Fprint(w io.Writer, a ...interface{}) (int, error) {
	return vxWriterTo(w, vxSprint(a, false))
}
func vxstub_fmt_Fprintln(w io.Writer, a ...interface{}) (int, error) {
	return vxWriterTo(w, vxSprint(a, true))
}

// log: the standard logger writes a timestamp, the text and a newline to standard error.
func vxLog(b []byte) {
	vxScn.stderr = append(vxScn.stderr, "2026/01/01 00:00:00 "...)
	vxScn.stderr = append(vxScn.stderr, b...)
	if len(b) == 0 || b[len(b)-1] != '\n' {
		vxScn.stderr = append(vxScn.stderr, '\n')
	}
}
func vxstub_log_Printf(format string, v ...interface{}) { vxLog(vxSprintf(format, v)) }
func vxstub_log_Print(v ...interface{})                 { vxLog(vxSprint(v, false)) }
func vxstub_log_Println(v ...interface{})               { vxLog(vxSprint(v, true)) }
func vxstub_log_Fatalf(format string, v ...interface{}) {
	vxLog(vxSprintf(format, v))
	vxstub_os_Exit(1)
}
func vxstub_log_Fatal(v ...interface{}) {
	vxLog(vxSprint(v, false))
	vxstub_os_Exit(1)
}
func vxstub_log_Fatalln(v ...interface{}) {
	vxLog(vxSprint(v, true))
	vxstub_os_Exit(1)
}

// ---------------------------------------------------------------- scenario

func vxDigit(name string) byte {
	b := vx.Byte(name)
	vx.Assume(vx.And(b >= '1', b <= '9'))
	return b
}

func vxPlain(name string) byte {
	b := vx.Byte(name)
	vx.Assume(vx.And(vx.And(b >= 0x20, b <= 0x7e), vx.And(b != '"', b != '\\')))
	return b
}

func vxGenFile(i int) vxFile {
	p := "f" + strconv.Itoa(i) + "."
	f := vxFile{name: "p" + strconv.Itoa(i) + ".json", kind: vx.Choose(p+"kind", nFileKinds)}
	switch f.kind {
	case fkGood:
		switch vx.Choose(p+"good", 6) {
		case 4: // reads the whole current document through the pointer "/": sees what earlier FILES did only when files are applied one after another
			f.content = []byte(`[{"op":"copy","from":"/","path":"/w` + strconv.Itoa(i) + `"}]`)
		case 5: // adds a member, so that a later file's view of the document differs from stdin
			d := string([]byte{vxDigit(p + "d")})
			f.content = []byte(`[{"op":"add","path":"/m","value":` + d + `},{"op":"test","path":"/m","value":` + d + `}]`)
		case 3: // not idempotent: applying it twice differs from applying it once
			f.content = []byte(`[{"op":"add","path":"/l/-","value":` + string([]byte{vxDigit(p + "d")}) + `}]`)
		case 0:
			f.content = []byte(`[{"op":"add","path":"/n` + strconv.Itoa(i) + `","value":` + string([]byte{vxDigit(p + "d")}) + `}]`)
		case 1:
			f.content = []byte(`[{"op":"replace","path":"/s","value":"` + string([]byte{vxPlain(p + "c")}) + `"}]`)
		case 2:
			f.content = []byte(`[]`)
		}
	case fkFails:
		switch vx.Choose(p+"bad", 2) {
		case 0:
			f.content = []byte(`[{"op":"test","path":"/a","value":"nope"}]`)
		case 1:
			f.content = []byte(`[{"op":"remove","path":"/absent` + strconv.Itoa(i) + `"}]`)
		}
	case fkMalformed:
		switch vx.Choose(p+"mal", 3) {
		case 0:
			f.content = []byte(`[{"op":"add","path":"/x"`)
		case 1:
			f.content = []byte(`{"op":"add","path":"/x","value":1}`)
		case 2:
			f.content = []byte(`[{"op":"frobnicate","path":"/x"}]`)
		}
	}
	return f
}

// vxRunNative writes the scenario to disk and runs the real binary.
func vxRunNative() {
	bin := os.Getenv("VX_CMD_BIN")
	dir, err := os.MkdirTemp("", "vxc20-")
	if err != nil {
		panic(err)
	}
	defer os.RemoveAll(dir)
	var args []string
	for _, f := range vxScn.files {
		path := filepath.Join(dir, f.name)
		switch f.kind {
		case fkMissing:
		case fkDir:
			os.Mkdir(path, 0o755)
		default:
			os.WriteFile(path, f.content, 0o644)
		}
		args = append(args, "-p", path)
	}
	cmd := exec.Command(bin, args...)
	cmd.Stdin = bytes.NewReader(vxScn.stdin)
	var so, se bytes.Buffer
	cmd.Stdout, cmd.Stderr = &so, &se
	err = cmd.Run()
	vxScn.stdout, vxScn.stderr = so.Bytes(), se.Bytes()
	vxScn.exit = 0
	if err != nil {
		vxScn.exit = 1
		var ee *exec.ExitError
		if errors.As(err, &ee) {
			vxScn.exit = ee.ExitCode()
		}
	}
}

// H_C20_Main: 0..nfiles patch files of every kind in every order.
func H_C20_Main() {
	n := vx.Choose("nfiles", vx.Param("maxfiles")+1)
	vxScn.files = nil
	vxScn.stdout, vxScn.stderr, vxScn.exit = nil, nil, 0
	for i := 0; i < n; i++ {
		if i > 0 && vx.Choose("f"+strconv.Itoa(i)+".repeat", 2) == 1 {
			// the same file listed again on the command line
			vxScn.files = append(vxScn.files, vxScn.files[0])
			continue
		}
		vxScn.files = append(vxScn.files, vxGenFile(i))
	}
	dc := string([]byte{vxPlain("doc.c0"), vxPlain("doc.c1")})
	vxScn.stdin = []byte(`{"a":"` + dc + `","s":"x","l":[]}`)
	form := vx.Choose("doc.form", 6)
	if n == 0 && form >= 2 && form <= 4 {
		// no patch and no JSON text on stdin: the statement does not say what "the document" is then
		vx.Assume(false)
	}
	switch form {
	case 1: // surrounding whitespace: printed verbatim when no patch is given
		vxScn.stdin = append(append([]byte(" \n"), vxScn.stdin...), " \n"...)
	case 2: // a second document after the first: not one JSON text
		vxScn.stdin = append(vxScn.stdin, ` {"a":3}`...)
	case 3: // trailing garbage
		vxScn.stdin = append(vxScn.stdin, "\n]"...)
	case 4: // truncated
		vxScn.stdin = vxScn.stdin[:len(vxScn.stdin)-1]
	case 5: // whitespace inside
		vxScn.stdin = []byte("{ \"a\" : \"" + dc + "\",\n\t\"s\":\"x\", \"l\":[ ] }")
	}
	for i, f := range vxScn.files {
		vx.Note("file"+strconv.Itoa(i)+"("+strconv.Itoa(f.kind)+")", f.content)
	}
	vx.Note("stdin", vxScn.stdin)
	vxScn.in = vxHandle{f: vxStdin, data: vxScn.stdin}
	vxScn.open = nil

	// expected outcome: left fold of the library's own Apply over the files in command-line order
	expectOK := true
	want := vxScn.stdin
	for _, f := range vxScn.files {
		if f.kind == fkMissing || f.kind == fkDir {
			expectOK = false
			break
		}
		p, err := jsonpatch.DecodePatch(f.content)
		if err != nil {
			expectOK = false
			break
		}
		want, err = p.Apply(want)
		if err != nil {
			expectOK = false
			break
		}
	}

	if vx.IsSymbolic() {
		os.Stdin, os.Stdout, os.Stderr = vxStdin, vxStdout, vxStderr
		func() {
			defer func() {
				if r := recover(); r != nil {
					if _, ok := r.(vxExit); !ok {
						panic(r)
					}
				}
			}()
			main()
		}()
	} else {
		vxRunNative()
	}
	vx.Note("stdout", vxScn.stdout)

	if expectOK {
		vx.Assert(vxScn.exit == 0, "C20/exit-zero-when-all-patches-apply")
		vx.Assert(vx.EqBytes(vxScn.stdout, want), "C20/stdout-is-the-folded-document")
		vx.Reach("C20/all-good")
	} else {
		vx.Assert(vxScn.exit != 0, "C20/nonzero-exit-on-any-failure")
		vx.Assert(len(vxScn.stdout) == 0, "C20/no-document-on-failure")
		vx.Assert(len(vxScn.stderr) > 0, "C20/error-reported-on-stderr")
		vx.Reach("C20/some-bad")
	}
	vx.Reach("C20/end")
}
