package main

// C20: the json-patch command. Under the symbolic executor the real main() runs with its I/O calls
// redirected to the stubs below (go-flags delivers the -p values by calling the real
// FileFlag.UnmarshalFlag; os.Stat / ReadFile answer from the scenario; log.Fatalf records stderr and the
// exit status and ends the run; fmt.Printf records stdout). In the native twin the same scenario is
// written to real files and the REAL BINARY built from this directory is executed.

import (
	"bytes"
	"errors"
	"io"
	"io/fs"
	"os"
	"os/exec"
	"path/filepath"
	"strconv"
	"time"

	jsonpatch "github.com/evanphx/json-patch/v5"
	"github.com/evanphx/json-patch/v5/zzverif/vx"
)

const (
	fkGood      = iota // well-formed patch that applies
	fkFails            // well-formed patch that does not apply (test fails / member missing)
	fkMalformed        // not a patch document
	fkMissing          // no such file
	fkDir              // a directory
	nFileKinds
)

type vxFile struct {
	name    string
	kind    int
	content []byte
}

var vxScn struct {
	files  []vxFile
	stdin  []byte
	stdout []byte
	stderr []byte
	exit   int
}

type vxExit struct{}

// ---------------------------------------------------------------- stubs (symbolic executor only)

func vxFind(name string) *vxFile {
	for k := range vxScn.files {
		if vxScn.files[k].name == name || "/abs/"+vxScn.files[k].name == name {
			return &vxScn.files[k]
		}
	}
	return nil
}

func vxstub_flags_Parse(data interface{}) ([]string, error) {
	o := data.(*opts)
	for _, f := range vxScn.files {
		var ff FileFlag
		if err := ff.UnmarshalFlag(f.name); err != nil {
			return nil, err
		}
		o.PatchFilePaths = append(o.PatchFilePaths, ff)
	}
	return nil, nil
}

type vxInfo struct {
	name string
	dir  bool
}

func (i vxInfo) Name() string       { return i.name }
func (i vxInfo) Size() int64        { return 0 }
func (i vxInfo) Mode() fs.FileMode  { return 0 }
func (i vxInfo) ModTime() time.Time { return time.Time{} }
func (i vxInfo) IsDir() bool        { return i.dir }
func (i vxInfo) Sys() interface{}   { return nil }

func vxstub_os_Stat(name string) (os.FileInfo, error) {
	f := vxFind(name)
	if f == nil || f.kind == fkMissing {
		return nil, errors.New("stat " + name + ": no such file or directory")
	}
	return vxInfo{name: name, dir: f.kind == fkDir}, nil
}

func vxstub_filepath_Abs(p string) (string, error) { return "/abs/" + p, nil }

func vxstub_ioutil_ReadFile(name string) ([]byte, error) {
	f := vxFind(name)
	if f == nil || f.kind == fkMissing {
		return nil, errors.New("open " + name + ": no such file or directory")
	}
	if f.kind == fkDir {
		return nil, errors.New("read " + name + ": is a directory")
	}
	return append([]byte(nil), f.content...), nil
}

func vxstub_ioutil_ReadAll(r io.Reader) ([]byte, error) {
	return append([]byte(nil), vxScn.stdin...), nil
}

func vxstub_log_Fatalf(format string, v ...interface{}) {
	vxScn.stderr = append(vxScn.stderr, "error: "...)
	vxScn.stderr = append(vxScn.stderr, format...)
	vxScn.exit = 1
	panic(vxExit{})
}

// vxstub_fmt_Printf implements the verbs the command can reach: %s with a []byte or string operand and %%;
// a verb without an operand is rendered as Go renders it (%!v(MISSING)), so a format string that carries
// document bytes shows up as different output.
func vxstub_fmt_Printf(format string, a ...interface{}) (int, error) {
	n := 0
	arg := 0
	for k := 0; k < len(format); k++ {
		c := format[k]
		if c != '%' {
			vxScn.stdout = append(vxScn.stdout, c)
			n++
			continue
		}
		k++
		if k >= len(format) {
			vxScn.stdout = append(vxScn.stdout, "%!(NOVERB)"...)
			break
		}
		if format[k] == '%' {
			vxScn.stdout = append(vxScn.stdout, '%')
			continue
		}
		if arg >= len(a) {
			vxScn.stdout = append(vxScn.stdout, '%', '!', format[k])
			vxScn.stdout = append(vxScn.stdout, "(MISSING)"...)
			continue
		}
		switch v := a[arg].(type) {
		case []byte:
			vxScn.stdout = append(vxScn.stdout, v...)
		case string:
			vxScn.stdout = append(vxScn.stdout, v...)
		default:
			vxScn.stdout = append(vxScn.stdout, '?')
		}
		arg++
	}
	return n, nil
}

// ---------------------------------------------------------------- scenario

func vxDigit(name string) byte {
	b := vx.Byte(name)
	vx.Assume(vx.And(b >= '1', b <= '9'))
	return b
}

func vxPlain(name string) byte {
	b := vx.Byte(name)
	vx.Assume(vx.And(vx.And(b >= 0x20, b <= 0x7e), vx.And(b != '"', b != '\\')))
	return b
}

func vxGenFile(i int) vxFile {
	p := "f" + strconv.Itoa(i) + "."
	f := vxFile{name: "p" + strconv.Itoa(i) + ".json", kind: vx.Choose(p+"kind", nFileKinds)}
	switch f.kind {
	case fkGood:
		switch vx.Choose(p+"good", 4) {
		case 3: // not idempotent: applying it twice differs from applying it once
			f.content = []byte(`[{"op":"add","path":"/l/-","value":` + string([]byte{vxDigit(p + "d")}) + `}]`)
		case 0:
			f.content = []byte(`[{"op":"add","path":"/n` + strconv.Itoa(i) + `","value":` + string([]byte{vxDigit(p + "d")}) + `}]`)
		case 1:
			f.content = []byte(`[{"op":"replace","path":"/s","value":"` + string([]byte{vxPlain(p + "c")}) + `"}]`)
		case 2:
			f.content = []byte(`[]`)
		}
	case fkFails:
		switch vx.Choose(p+"bad", 2) {
		case 0:
			f.content = []byte(`[{"op":"test","path":"/a","value":"nope"}]`)
		case 1:
			f.content = []byte(`[{"op":"remove","path":"/absent` + strconv.Itoa(i) + `"}]`)
		}
	case fkMalformed:
		switch vx.Choose(p+"mal", 3) {
		case 0:
			f.content = []byte(`[{"op":"add","path":"/x"`)
		case 1:
			f.content = []byte(`{"op":"add","path":"/x","value":1}`)
		case 2:
			f.content = []byte(`[{"op":"frobnicate","path":"/x"}]`)
		}
	}
	return f
}

// vxRunNative writes the scenario to disk and runs the real binary.
func vxRunNative() {
	bin := os.Getenv("VX_CMD_BIN")
	dir, err := os.MkdirTemp("", "vxc20-")
	if err != nil {
		panic(err)
	}
	defer os.RemoveAll(dir)
	var args []string
	for _, f := range vxScn.files {
		path := filepath.Join(dir, f.name)
		switch f.kind {
		case fkMissing:
		case fkDir:
			os.Mkdir(path, 0o755)
		default:
			os.WriteFile(path, f.content, 0o644)
		}
		args = append(args, "-p", path)
	}
	cmd := exec.Command(bin, args...)
	cmd.Stdin = bytes.NewReader(vxScn.stdin)
	var so, se bytes.Buffer
	cmd.Stdout, cmd.Stderr = &so, &se
	err = cmd.Run()
	vxScn.stdout, vxScn.stderr = so.Bytes(), se.Bytes()
	vxScn.exit = 0
	if err != nil {
		vxScn.exit = 1
		var ee *exec.ExitError
		if errors.As(err, &ee) {
			vxScn.exit = ee.ExitCode()
		}
	}
}

// H_C20_Main: 0..nfiles patch files of every kind in every order.
func H_C20_Main() {
	n := vx.Choose("nfiles", vx.Param("maxfiles")+1)
	vxScn.files = nil
	vxScn.stdout, vxScn.stderr, vxScn.exit = nil, nil, 0
	for i := 0; i < n; i++ {
		if i > 0 && vx.Choose("f"+strconv.Itoa(i)+".repeat", 2) == 1 {
			// the same file listed again on the command line
			vxScn.files = append(vxScn.files, vxScn.files[0])
			continue
		}
		vxScn.files = append(vxScn.files, vxGenFile(i))
	}
	vxScn.stdin = []byte(`{"a":"` + string([]byte{vxPlain("doc.c0"), vxPlain("doc.c1")}) + `","s":"x","l":[]}`)
	for i, f := range vxScn.files {
		vx.Note("file"+strconv.Itoa(i)+"("+strconv.Itoa(f.kind)+")", f.content)
	}
	vx.Note("stdin", vxScn.stdin)

	// expected outcome: left fold of the library's own Apply over the files in command-line order
	expectOK := true
	want := vxScn.stdin
	for _, f := range vxScn.files {
		if f.kind == fkMissing || f.kind == fkDir {
			expectOK = false
			break
		}
		p, err := jsonpatch.DecodePatch(f.content)
		if err != nil {
			expectOK = false
			break
		}
		want, err = p.Apply(want)
		if err != nil {
			expectOK = false
			break
		}
	}

	if vx.IsSymbolic() {
		func() {
			defer func() {
				if r := recover(); r != nil {
					if _, ok := r.(vxExit); !ok {
						panic(r)
					}
				}
			}()
			main()
		}()
	} else {
		vxRunNative()
	}
	vx.Note("stdout", vxScn.stdout)

	if expectOK {
		vx.Assert(vxScn.exit == 0, "C20/exit-zero-when-all-patches-apply")
		vx.Assert(vx.EqBytes(vxScn.stdout, want), "C20/stdout-is-the-folded-document")
		vx.Reach("C20/all-good")
	} else {
		vx.Assert(vxScn.exit != 0, "C20/nonzero-exit-on-any-failure")
		vx.Assert(len(vxScn.stdout) == 0, "C20/no-document-on-failure")
		vx.Assert(len(vxScn.stderr) > 0, "C20/error-reported-on-stderr")
		vx.Reach("C20/some-bad")
	}
	vx.Reach("C20/end")
}
