package json

// In-package harnesses (need unexported names of internal/json).

import (
	"github.com/evanphx/json-patch/v5/zzverif/vx"
)

// H_C16_Depth: one scanner step at SYMBOLIC nesting depth d (the parse stack is an abstract
// slice of symbolic length and arbitrary contents): opening a container succeeds iff d < 10000
// and then the stack has d+1 entries; closing pops exactly one entry; no index is ever out of range.
func H_C16_Depth() {
	s := &scanner{}
	s.parseState = vx.SymIntSlice("ps")
	d := len(s.parseState)
	vx.Assume(d <= maxNestingDepth)
	c := vx.Byte("c")
	switch vx.Choose("step", 3) {
	case 0: // a value begins
		s.step = stateBeginValue
		r := stateBeginValue(s, c)
		opens := vx.Or(c == '{', c == '[')
		if opens {
			vx.Assert((r != scanError) == (d < maxNestingDepth), "C16/push-succeeds-iff-below-limit")
			vx.Assert(len(s.parseState) == d+1, "C16/push-grows-by-one")
			if r == scanError {
				vx.Reach("C16/depth/limit-hit")
			} else {
				vx.Reach("C16/depth/pushed")
			}
		} else {
			vx.Assert(len(s.parseState) == d, "C16/non-container-keeps-depth")
		}
	case 1: // after a value, at depth d >= 1
		vx.Assume(d >= 1)
		s.step = stateEndValue
		r := stateEndValue(s, c)
		if r == scanEndObject || r == scanEndArray {
			vx.Assert(len(s.parseState) == d-1, "C16/pop-shrinks-by-one")
			vx.Reach("C16/depth/popped")
		} else {
			vx.Assert(len(s.parseState) == d, "C16/no-pop-keeps-depth")
		}
	case 2: // after a value at depth 0 (top level): only whitespace may follow
		vx.Assume(d == 0)
		s.step = stateEndValue
		stateEndValue(s, c)
		vx.Assert((s.err == nil) == isSpace(c), "C16/only-space-after-top-level-value")
	}
	vx.Reach("C16/depth/end")
}
