package json

// In-package harnesses (need unexported names of internal/json).

import (
	"github.com/evanphx/json-patch/v5/zzverif/vx"
)

// H_C16_Depth: one scanner step at SYMBOLIC nesting depth d (the parse stack is an abstract
// slice of symbolic length and arbitrary contents): opening a container succeeds iff d < 10000
// and then the stack has d+1 entries; closing pops exactly one entry; no index is ever out of range.
func H_C16_Depth() {
	s := &scanner{}
	s.parseState = vx.SymIntSlice("ps")
	d := len(s.parseState)
	vx.Assume(d <= maxNestingDepth)
	if d >= 1 {
		// the entry on top of the stack is an explicit symbolic value (so that the native twin sees the same
		// one); the entries below it are arbitrary and irrelevant to a single step
		s.parseState[d-1] = vx.Int("top")
	}
	c := vx.Byte("c")
	switch vx.Choose("step", 3) {
	case 0: // a value begins
		s.step = stateBeginValue
		r := stateBeginValue(s, c)
		opens := vx.Or(c == '{', c == '[')
		if opens {
			vx.Assert((r != scanError) == (d < maxNestingDepth), "C16/push-succeeds-iff-below-limit")
			vx.Assert(len(s.parseState) == d+1, "C16/push-grows-by-one")
			if r == scanError {
				vx.Reach("C16/depth/limit-hit")
			} else {
				vx.Reach("C16/depth/pushed")
			}
		} else {
			vx.Assert(len(s.parseState) == d, "C16/non-container-keeps-depth")
		}
	case 1: // after a value, at depth d >= 1
		vx.Assume(d >= 1)
		s.step = stateEndValue
		r := stateEndValue(s, c)
		if r == scanEndObject || r == scanEndArray {
			vx.Assert(len(s.parseState) == d-1, "C16/pop-shrinks-by-one")
			vx.Reach("C16/depth/popped")
		} else {
			vx.Assert(len(s.parseState) == d, "C16/no-pop-keeps-depth")
		}
	case 2: // after a value at depth 0 (top level): only whitespace may follow
		vx.Assume(d == 0)
		s.step = stateEndValue
		stateEndValue(s, c)
		vx.Assert((s.err == nil) == isSpace(c), "C16/only-space-after-top-level-value")
	}
	vx.Reach("C16/depth/end")
}

// H_C17_Fold: the three specialised folding functions agree with bytes.EqualFold under their documented
// preconditions (s all ASCII; asciiEqualFold: s has no k/K/s/S; simpleLetterEqualFold: s letters only, no k/s).
func H_C17_Fold() {
	ns, nt := vx.Param("ns"), vx.Param("nt")
	s := vx.Bytes("s", ns)
	t := vx.Bytes("t", nt)
	for _, b := range s {
		vx.Assume(b < 0x80)
	}
	which := vx.Choose("fn", 3)
	special, nonLetter := false, false
	for _, b := range s {
		upper := b & caseMask
		if upper < 'A' || upper > 'Z' {
			nonLetter = true
		} else if upper == 'K' || upper == 'S' {
			special = true
		}
	}
	want := bytesEqualFoldRef(s, t)
	switch which {
	case 0:
		vx.Assert(equalFoldRight(s, t) == want, "C17/equalFoldRight-is-EqualFold")
	case 1:
		if special {
			return
		}
		vx.Assert(asciiEqualFold(s, t) == want, "C17/asciiEqualFold-is-EqualFold")
	case 2:
		if special || nonLetter {
			return
		}
		vx.Assert(simpleLetterEqualFold(s, t) == want, "C17/simpleLetterEqualFold-is-EqualFold")
	}
	vx.Reach("C17/fold/end")
}

// bytesEqualFoldRef: simple-folding equality of an ASCII string s with arbitrary bytes t, written from the Unicode
// case-folding table for ASCII letters: letters fold to the other case; k/K also to U+212A (E2 84 AA); s/S also to
// U+017F (C5 BF). Everything else must match exactly.
func bytesEqualFoldRef(s, t []byte) bool {
	j := 0
	for _, c := range s {
		if j >= len(t) {
			return false
		}
		up := c & caseMask
		isLetter := up >= 'A' && up <= 'Z'
		switch {
		case t[j] == c:
			j++
		case isLetter && t[j]&caseMask == up && t[j] < 0x80:
			j++
		case up == 'K' && j+2 < len(t)+0 && t[j] == 0xE2 && t[j+1] == 0x84 && t[j+2] == 0xAA:
			j += 3
		case up == 'S' && j+1 < len(t) && t[j] == 0xC5 && t[j+1] == 0xBF:
			j += 2
		default:
			return false
		}
	}
	return j == len(t)
}

// H_C09_StaleDecoder: ONE inductive step instead of call histories. A decodeState in an ARBITRARY stale
// condition (symbolic offset and opcode, stale saved error, stale error context, stale key list, a scanner left
// in the middle of something with a non-empty parse stack, a stale scanner error and byte count) is put through
// exactly what the exported entry points do (set useNumber, init, unmarshal); the outcome must equal that of a
// brand-new state. The invariant assumed of pooled states is only disallowUnknownFields == false (no entry
// point that uses the pool ever sets it).
func H_C09_StaleDecoder() {
	texts := []string{`{"b":1,"a":[true,null,"x"]}`, `[1.5,{"k":"v"}]`, `"s"`, `null`, `{"a":{"b":{}}}`, ` {"z":1e400} `}
	data := []byte(texts[vx.Choose("text", len(texts))])
	into := vx.Choose("into", 3)

	stale := &decodeState{}
	stale.data = []byte(`{"old":[`)
	stale.off = vx.Int("st.off")
	stale.opcode = vx.Int("st.opcode")
	if vx.Choose("st.saved", 2) == 1 {
		stale.savedError = &UnmarshalTypeError{Value: "stale", Offset: 3}
	}
	if vx.Choose("st.ctx", 2) == 1 {
		stale.errorContext = &errorContext{FieldStack: []string{"stale", "field"}}
	}
	stale.lastKeys = []string{"stale-key"}
	stale.useNumber = vx.Bool("st.usenumber")
	steps := []func(*scanner, byte) int{stateInString, stateEndValue, stateError, stateBeginValue, stateInStringEscU12}
	stale.scan.step = steps[vx.Choose("st.step", len(steps))]
	stale.scan.endTop = vx.Bool("st.endtop")
	stale.scan.parseState = []int{parseObjectKey, parseArrayValue, vx.Int("st.ps")}
	if vx.Choose("st.scanerr", 2) == 1 {
		stale.scan.err = &SyntaxError{"stale", 7}
	}
	stale.scan.bytes = int64(vx.Int("st.bytes"))

	run := func(d *decodeState, validate bool) (out []byte, keys []string, errKind int) {
		d.useNumber = true
		if validate {
			if err := checkValid(data, &d.scan); err != nil {
				return nil, nil, 1
			}
		}
		d.init(data)
		var err error
		var res interface{}
		switch into {
		case 0:
			var v interface{}
			err = d.unmarshal(&v)
			res = v
		case 1:
			var m map[string]interface{}
			err = d.unmarshal(&m)
			res = m
		case 2:
			var s []interface{}
			err = d.unmarshal(&s)
			res = s
		}
		if err != nil {
			if _, ok := err.(*UnmarshalTypeError); ok {
				return nil, nil, 2
			}
			return nil, nil, 3
		}
		out, _ = Marshal(res)
		return out, d.lastKeys, 0
	}
	validate := vx.Choose("validate", 2) == 1
	var o1, o2 []byte
	var k1, k2 []string
	var e1, e2 int
	panicked := vx.CatchPanic(func() {
		o1, k1, e1 = run(stale, validate)
		o2, k2, e2 = run(&decodeState{}, validate)
	})
	vx.Assert(!panicked, "C09/stale-decoder-no-panic")
	if panicked {
		vx.Note("panic", []byte(vx.PanicMsg()))
		return
	}
	vx.Assert(e1 == e2, "C09/stale-decoder-same-error-class")
	vx.Assert(vx.EqBytes(o1, o2), "C09/stale-decoder-same-value")
	if e1 == 0 && into == 1 && (data[0] == '{' || data[1] == '{') {
		// the key list is part of the result only when an object is decoded into a map (what json-patch does);
		// for other destinations the codec leaves lastKeys as it found it (DESIGN appendix B, not compared)
		same := len(k1) == len(k2)
		if same {
			for i := range k1 {
				if k1[i] != k2[i] {
					same = false
				}
			}
		}
		vx.Assert(same, "C09/stale-decoder-same-keys")
		vx.Reach("C09/stale/object")
	}
	vx.Reach("C09/stale/end")
}
