package zzverif

// Generators: shapes are enumerated with vx.Choose (paths), contents are
// symbolic bytes constrained to small alphabets by vx.Assume.

import (
	"strconv"

	"github.com/evanphx/json-patch/v5/zzverif/vx"
)

// symPlain: printable ASCII that needs no escaping inside a JSON string.
func symPlain(name string) byte {
	b := vx.Byte(name)
	vx.Assume(vx.And(vx.And(b >= 0x20, b <= 0x7e), vx.And(b != '"', b != '\\')))
	return b
}

// symTokByte: plain, and neither '/' nor '~' (reference-token metacharacters).
func symTokByte(name string) byte {
	b := vx.Byte(name)
	vx.Assume(vx.And(vx.And(vx.And(b >= 0x20, b <= 0x7e), vx.And(b != '"', b != '\\')), vx.And(b != '/', b != '~')))
	return b
}

func symDigit(name string) byte {
	b := vx.Byte(name)
	vx.Assume(vx.And(b >= '0', b <= '9'))
	return b
}

func symDigit19(name string) byte {
	b := vx.Byte(name)
	vx.Assume(vx.And(b >= '1', b <= '9'))
	return b
}

// symLetter: one of a small alphabet of lower-case letters a..d (collisions with concrete names a, b, c are solver-decided).
func symLetter(name string) byte {
	b := vx.Byte(name)
	vx.Assume(vx.And(b >= 'a', b <= 'd'))
	return b
}

// symInert: plain and not one of < > & (so neither the scanner nor the encoder distinguishes values of this class).
func symInert(name string) byte {
	b := vx.Byte(name)
	vx.Assume(vx.And(vx.And(vx.And(b >= 0x20, b <= 0x7e), vx.And(b != '"', b != '\\')), vx.And(vx.And(b != '<', b != '>'), b != '&')))
	return b
}

// symNum: a one-digit number literal 1..9 (one scanner class; the value is still solver-chosen).
func symNum(name string) *JV {
	if concreteNums {
		return jNum([]byte{byte('1' + vx.Choose(name+".digit", 2))})
	}
	return jNum([]byte{symDigit19(name)})
}

// concreteNums switches number leaves to concrete digits (1,2,…) for code that converts numbers to float64.
var concreteNums bool

// symStr1: a string of one inert byte.
func symStr1(name string) *JV { return jStr([]byte{symInert(name)}) }

func itoa(i int) string { return strconv.Itoa(i) }

// ---------------------------------------------------------------- documents for the RFC 6902 harnesses

const nDocShapes = 23

// docShape builds document shape i; leaves are symbolic.
func docShape(i int, pfx string) *JV {
	n := func(k int) *JV { return symNum(pfx + "n" + itoa(k)) }
	switch i {
	case 0:
		return jObj().with("a", n(0))
	case 1:
		return jObj().with("a", n(0)).with("b", symStr1(pfx+"s0"))
	case 2:
		return jObj().with("a", jNull()).with("b", n(0))
	case 3:
		return jObj().with("a", jObj().with("b", n(0))).with("c", n(1))
	case 4:
		return jObj().with("a", jArr(n(0), n(1))).with("b", n(2))
	case 5:
		return jArr(n(0), n(1))
	case 6:
		return &JV{K: JArr, Kids: []*JV{}}
	case 7:
		return jArr(n(0), jNull())
	case 8:
		return jArr(jObj().with("a", n(0)), n(1))
	case 9:
		return jObj().with("a", &JV{K: JArr, Kids: []*JV{}}).with("b", jObj())
	case 10:
		return jObj().with("a~b", n(0)).with("c/d", n(1))
	case 11:
		return jObj().with("a", jArr(jArr(n(0))))
	case 12:
		return jObj().with("c", n(0)).with("a", n(1)).with("b", jBool(true))
	case 13:
		// strings whose escaped length depends on the bytes (<, >, & allowed)
		return jObj().with("a", jStr([]byte{symPlain(pfx + "h0"), symPlain(pfx + "h1")})).with("b", n(0))
	case 14:
		return jObj().with("a", jObj().with("s", jStr([]byte{symPlain(pfx + "h0")})).with("t", jNull())).with("b", &JV{K: JArr, Kids: []*JV{}})
	case 15:
		return jArr(jStr([]byte{symPlain(pfx + "h0")}), jNull(), n(0))
	case 16:
		// number literals that must survive verbatim (C05): d.d, -0, 23 digits, 1e400, -d, dEdd; members not in sorted order
		return jObj().with("q", litNum(pfx, 0)).with("b", litNum(pfx, 1)).with("z", litNum(pfx, 2)).with("a", litNum(pfx, 3)).with("m", litNum(pfx, 4)).with("c", litNum(pfx, 5))
	case 17:
		return jArr(litNum(pfx, 2), jObj().with("y", litNum(pfx, 0)).with("x", litNum(pfx, 3)), litNum(pfx, 5), litNum(pfx, 1))
	case 19:
		// containers under names that need ~0/~1 in a pointer (escaped ANCESTOR tokens)
		return jObj().with("a~b", jObj().with("x", n(0))).with("c/d", jArr(n(1))).with("k", n(2))
	case 20:
		// the same, with the names spelled through JSON escapes in the document text
		o := jObj().with("a~b", jObj().with("x", n(0))).with("c/d", jArr(n(1))).with("k", n(2))
		o.KSp = [][]byte{[]byte("a" + "\\u007e" + "b"), []byte("c" + "\\/" + "d"), nil}
		return o
	case 21:
		// a member name spelled twice (valid JSON; the last value is the member's value). Outside C01's stated
		// domain: only the error-class clauses (C08) and panic freedom (C04) are asserted on it.
		return jObj().with("a", n(0)).with("b", n(1)).with("a", n(2))
	case 22:
		// members named by the empty string, at the root and nested
		return jObj().with("", n(0)).with("a", jObj().with("", n(1)).with("b", n(2)))
	case 18:
		// member names made of the two RFC 6901 metacharacters: every decoding order slip lands on a sibling
		return jObj().with("~1", n(0)).with("/", n(1)).with("~0", n(2)).with("~", jObj().with("/0", n(3)).with("~1", n(4)))
	}
	panic("docShape")
}

const nValShapes = 9

func valShape(i int, pfx string) *JV {
	switch i {
	case 0:
		return symNum(pfx + "vn")
	case 1:
		return jNull()
	case 2:
		return symStr1(pfx + "vs")
	case 3:
		return jObj()
	case 4:
		return jArr(jNull())
	case 5:
		return jObj().with("k", symNum(pfx+"vk"))
	case 6:
		return &JV{K: JArr, Kids: []*JV{}}
	case 7:
		return jBool(true)
	case 8:
		// number literals an operation value must carry verbatim: upper-case exponent, out of float64 range, -0
		return jArr(litNum(pfx+"v", 5), litNum(pfx+"v", 3), jObj().with("m", litNum(pfx+"v", 1)))
	}
	panic("valShape")
}

// chooseMask picks one of the set bits of mask (as an index 0..n-1).
func chooseMask(name string, mask, n int) int {
	var idx []int
	for i := 0; i < n; i++ {
		if mask&(1<<uint(i)) != 0 {
			idx = append(idx, i)
		}
	}
	return idx[vx.Choose(name, len(idx))]
}

var numLookalikes = []string{"0x1", "0b1", "0o1", "1e0", "1_0", " 1"}

// indices at the edge of the int range: -2^63 (its negation overflows), 2^63-1, 2^64 (wraps to 0 in a careless parser)
var edgeIndices = []string{"-9223372036854775808", "9223372036854775807", "18446744073709551616"}

// genTok builds one reference token. kinds (bits of tokMask): 0 = one symbolic byte, 1 = two, 2 = "a~0b", 3 = "c~1d", 4 = three symbolic bytes, 5 = "a", 6 = ~0/~1 optionally followed by 0/1, 7 = a number look-alike (0x1, 0b1, 1e0, 1_0 ...), 8 = the empty token, 9 = an index at the edge of the int range (-2^63, 2^63-1, 2^64).
func genTok(name string, tokMask int) Tok {
	switch chooseMask(name+".kind", tokMask, 10) {
	case 0:
		b := []byte{symTokByte(name + ".0")}
		return Tok{Raw: b, Name: b}
	case 1:
		b := []byte{symTokByte(name + ".0"), symTokByte(name + ".1")}
		return Tok{Raw: b, Name: b}
	case 2:
		return Tok{Raw: []byte("a~0b"), Name: []byte("a~b")}
	case 3:
		return Tok{Raw: []byte("c~1d"), Name: []byte("c/d")}
	case 4:
		b := []byte{symTokByte(name + ".0"), symTokByte(name + ".1"), symTokByte(name + ".2")}
		return Tok{Raw: b, Name: b}
	case 5:
		return Tok{Raw: []byte("a"), Name: []byte("a")}
	case 6:
		// one escape followed by an optional 0/1: ~0, ~1, ~00, ~01, ~10, ~11 (names ~, /, ~0, ~1, /0, /1)
		esc := vx.Choose(name+".esc", 2)
		tail := vx.Choose(name+".tail", 3)
		raw := []byte{'~', byte('0' + esc)}
		nm := []byte{"~/"[esc]}
		if tail > 0 {
			raw = append(raw, byte('0'+tail-1))
			nm = append(nm, byte('0'+tail-1))
		}
		return Tok{Raw: raw, Name: nm}
	case 9:
		b := []byte(edgeIndices[vx.Choose(name+".edge", len(edgeIndices))])
		return Tok{Raw: b, Name: b}
	case 8:
		// the empty token: the member whose name is the empty string
		return Tok{Raw: []byte{}, Name: []byte{}}
	case 7:
		// spellings that look like numbers to a lenient parser (base prefixes, octal-looking, underscores, exponent,
		// sign, surrounding space) but name no array location: on an array every one of them is an error
		b := []byte(numLookalikes[vx.Choose(name+".look", len(numLookalikes))])
		return Tok{Raw: b, Name: b}
	}
	panic("genTok")
}

// genPtr builds a pointer of minTok..maxTok tokens.
func genPtr(name string, minTok, maxTok, tokKinds int) Ptr {
	n := minTok + vx.Choose(name+".ntok", maxTok-minTok+1)
	p := Ptr{}
	for k := 0; k < n; k++ {
		p.Toks = append(p.Toks, genTok(name+".t"+itoa(k), tokKinds))
	}
	return p
}

func (p Ptr) text() []byte {
	var out []byte
	for _, t := range p.Toks {
		out = append(out, '/')
		out = append(out, t.Raw...)
	}
	return out
}

// genOp builds one operation of a kind chosen from kindMask, with the first nVals value shapes.
func genOp(name string, kindMask, minTok, maxTok, tokMask, nVals int) Op {
	op := Op{Kind: chooseMask(name+".kind", kindMask, 6)}
	op.Path = genPtr(name+".path", minTok, maxTok, tokMask)
	switch op.Kind {
	case OpAdd, OpReplace, OpTest:
		if vm := vx.ParamOr("valmask", 0); vm != 0 {
			op.Val = valShape(chooseMask(name+".val", vm, nValShapes), name+".")
		} else {
			op.Val = valShape(vx.Choose(name+".val", nVals), name+".")
		}
		op.HasVal = true
	case OpMove, OpCopy:
		op.From = genPtr(name+".from", minTok, maxTok, tokMask)
	}
	return op
}

func renderOp(out []byte, op Op) []byte {
	out = append(out, `{"op":"`...)
	out = append(out, opNamesJP[op.Kind]...)
	out = append(out, `","path":"`...)
	out = append(out, op.Path.text()...)
	out = append(out, '"')
	switch op.Kind {
	case OpMove, OpCopy:
		out = append(out, `,"from":"`...)
		out = append(out, op.From.text()...)
		out = append(out, '"')
	}
	if op.HasVal {
		out = append(out, `,"value":`...)
		out = renderTo(out, op.Val)
	}
	return append(out, '}')
}

func renderPatch(ops []Op) []byte {
	out := []byte{'['}
	for i, op := range ops {
		if i > 0 {
			out = append(out, ',')
		}
		out = renderOp(out, op)
	}
	return append(out, ']')
}

// litNum: number templates with symbolic digits.
func litNum(pfx string, i int) *JV {
	d := func(k int) byte { return symDigit(pfx + "l" + itoa(i) + "." + itoa(k)) }
	switch i {
	case 0:
		return jNum([]byte{d(0), '.', d(1)})
	case 1:
		return jNumS("-0")
	case 2:
		return jNum([]byte{'1', '2', '3', '4', '5', '6', '7', '8', '9', '0', d(0), '2', '3', '4', '5', '6', '7', '8', '9', '0', d(1), '2', d(2)})
	case 3:
		return jNumS("1e400")
	case 4:
		return jNum([]byte{'-', symDigit19(pfx + "l4.0")})
	case 5:
		return jNum([]byte{symDigit19(pfx + "l5.0"), 'E', d(1), d(2)})
	}
	panic("litNum")
}

// renderPatchWS: as renderPatch with whitespace around every token of the patch document and inside operation values.
func renderPatchWS(ops []Op) []byte {
	out := []byte(" [")
	for i, op := range ops {
		if i > 0 {
			out = append(out, " ,\n"...)
		}
		out = append(out, "\t{ \"op\" : \""...)
		out = append(out, opNamesJP[op.Kind]...)
		out = append(out, "\" ,\r\n \"path\":\t\""...)
		out = append(out, op.Path.text()...)
		out = append(out, '"')
		switch op.Kind {
		case OpMove, OpCopy:
			out = append(out, " , \"from\" : \""...)
			out = append(out, op.From.text()...)
			out = append(out, '"')
		}
		if op.HasVal {
			out = append(out, " ,\"value\" :"...)
			out = append(out, renderWS(op.Val)...)
		}
		out = append(out, " }"...)
	}
	return append(out, " ]\n"...)
}
