package zzverif

// Strict, order- and literal-preserving JSON reader for the library's outputs.
// Independent of the library's scanner/decoder.

type jparser struct {
	b []byte
	p int
}

// parseJSON parses exactly one JSON text (surrounding whitespace allowed).
func parseJSON(b []byte) (*JV, bool) {
	r := &jparser{b: b}
	r.ws()
	v, ok := r.value(0)
	if !ok {
		return nil, false
	}
	r.ws()
	if r.p != len(r.b) {
		return nil, false
	}
	return v, true
}

func (r *jparser) ws() {
	for r.p < len(r.b) && isWS(r.b[r.p]) {
		r.p++
	}
}

func (r *jparser) lit(s string) bool {
	if r.p+len(s) > len(r.b) {
		return false
	}
	for k := 0; k < len(s); k++ {
		if r.b[r.p+k] != s[k] {
			return false
		}
	}
	r.p += len(s)
	return true
}

func (r *jparser) value(depth int) (*JV, bool) {
	if r.p >= len(r.b) || depth > 64 {
		return nil, false
	}
	c := r.b[r.p]
	switch {
	case c == '{':
		r.p++
		o := jObj()
		r.ws()
		if r.p < len(r.b) && r.b[r.p] == '}' {
			r.p++
			return o, true
		}
		for {
			r.ws()
			k, ok := r.str()
			if !ok {
				return nil, false
			}
			r.ws()
			if r.p >= len(r.b) || r.b[r.p] != ':' {
				return nil, false
			}
			r.p++
			r.ws()
			v, ok := r.value(depth + 1)
			if !ok {
				return nil, false
			}
			o.Keys = append(o.Keys, k)
			o.Kids = append(o.Kids, v)
			r.ws()
			if r.p >= len(r.b) {
				return nil, false
			}
			if r.b[r.p] == ',' {
				r.p++
				continue
			}
			if r.b[r.p] == '}' {
				r.p++
				return o, true
			}
			return nil, false
		}
	case c == '[':
		r.p++
		a := &JV{K: JArr, Kids: []*JV{}}
		r.ws()
		if r.p < len(r.b) && r.b[r.p] == ']' {
			r.p++
			return a, true
		}
		for {
			r.ws()
			v, ok := r.value(depth + 1)
			if !ok {
				return nil, false
			}
			a.Kids = append(a.Kids, v)
			r.ws()
			if r.p >= len(r.b) {
				return nil, false
			}
			if r.b[r.p] == ',' {
				r.p++
				continue
			}
			if r.b[r.p] == ']' {
				r.p++
				return a, true
			}
			return nil, false
		}
	case c == '"':
		s, ok := r.str()
		if !ok {
			return nil, false
		}
		return jStr(s), true
	case c == 't':
		if r.lit("true") {
			return jBool(true), true
		}
		return nil, false
	case c == 'f':
		if r.lit("false") {
			return jBool(false), true
		}
		return nil, false
	case c == 'n':
		if r.lit("null") {
			return jNull(), true
		}
		return nil, false
	case c == '-' || isDigit(c):
		st := r.p
		rv := &rv{b: r.b, p: r.p}
		if !rv.num() {
			return nil, false
		}
		r.p = rv.p
		return jNum(r.b[st:r.p]), true
	}
	return nil, false
}

func hexVal(c byte) int {
	switch {
	case c >= '0' && c <= '9':
		return int(c - '0')
	case c >= 'a' && c <= 'f':
		return int(c-'a') + 10
	case c >= 'A' && c <= 'F':
		return int(c-'A') + 10
	}
	return -1
}

func appendUTF8(out []byte, r int) []byte {
	switch {
	case r < 0x80:
		return append(out, byte(r))
	case r < 0x800:
		return append(out, byte(0xC0|r>>6), byte(0x80|r&0x3F))
	case r < 0x10000:
		return append(out, byte(0xE0|r>>12), byte(0x80|(r>>6)&0x3F), byte(0x80|r&0x3F))
	}
	return append(out, byte(0xF0|r>>18), byte(0x80|(r>>12)&0x3F), byte(0x80|(r>>6)&0x3F), byte(0x80|r&0x3F))
}

func (r *jparser) hex4() (int, bool) {
	if r.p+4 > len(r.b) {
		return 0, false
	}
	v := 0
	for k := 0; k < 4; k++ {
		h := hexVal(r.b[r.p+k])
		if h < 0 {
			return 0, false
		}
		v = v<<4 | h
	}
	r.p += 4
	return v, true
}

// str parses a string and returns its value (escapes decoded; a lone surrogate becomes U+FFFD).
func (r *jparser) str() ([]byte, bool) {
	if r.p >= len(r.b) || r.b[r.p] != '"' {
		return nil, false
	}
	r.p++
	out := []byte{}
	for r.p < len(r.b) {
		c := r.b[r.p]
		switch {
		case c == '"':
			r.p++
			return out, true
		case c < 0x20:
			return nil, false
		case c == '\\':
			r.p++
			if r.p >= len(r.b) {
				return nil, false
			}
			e := r.b[r.p]
			r.p++
			switch e {
			case '"', '\\', '/':
				out = append(out, e)
			case 'b':
				out = append(out, '\b')
			case 'f':
				out = append(out, '\f')
			case 'n':
				out = append(out, '\n')
			case 'r':
				out = append(out, '\r')
			case 't':
				out = append(out, '\t')
			case 'u':
				u, ok := r.hex4()
				if !ok {
					return nil, false
				}
				if u >= 0xD800 && u < 0xDC00 {
					// high surrogate: needs \uDC00..DFFF
					if r.p+6 <= len(r.b) && r.b[r.p] == '\\' && r.b[r.p+1] == 'u' {
						save := r.p
						r.p += 2
						lo, ok := r.hex4()
						if ok && lo >= 0xDC00 && lo < 0xE000 {
							out = appendUTF8(out, 0x10000+(u-0xD800)<<10+(lo-0xDC00))
							continue
						}
						r.p = save
					}
					out = appendUTF8(out, 0xFFFD)
				} else if u >= 0xDC00 && u < 0xE000 {
					out = appendUTF8(out, 0xFFFD)
				} else {
					out = appendUTF8(out, u)
				}
			default:
				return nil, false
			}
		default:
			out = append(out, c)
			r.p++
		}
	}
	return nil, false
}
