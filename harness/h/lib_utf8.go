package zzverif

// validUTF8: RFC 3629 well-formedness (no surrogates, no overlong forms, <= U+10FFFF).
func validUTF8(b []byte) bool {
	for i := 0; i < len(b); {
		c := b[i]
		switch {
		case c < 0x80:
			i++
		case c >= 0xC2 && c <= 0xDF:
			if i+1 >= len(b) || b[i+1]&0xC0 != 0x80 {
				return false
			}
			i += 2
		case c >= 0xE0 && c <= 0xEF:
			if i+2 >= len(b) || b[i+1]&0xC0 != 0x80 || b[i+2]&0xC0 != 0x80 {
				return false
			}
			if c == 0xE0 && b[i+1] < 0xA0 || c == 0xED && b[i+1] >= 0xA0 {
				return false
			}
			i += 3
		case c >= 0xF0 && c <= 0xF4:
			if i+3 >= len(b) || b[i+1]&0xC0 != 0x80 || b[i+2]&0xC0 != 0x80 || b[i+3]&0xC0 != 0x80 {
				return false
			}
			if c == 0xF0 && b[i+1] < 0x90 || c == 0xF4 && b[i+1] >= 0x90 {
				return false
			}
			i += 4
		default:
			return false
		}
	}
	return true
}
