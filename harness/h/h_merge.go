package zzverif

import (
	jsonpatch "github.com/evanphx/json-patch/v5"
	"github.com/evanphx/json-patch/v5/zzverif/vx"
)

// ---------------------------------------------------------------- families

const nMergeVals = 13

// mergeVal: the focus value set V of DESIGN.md §4.2 (null at member, element and member-of-object-in-array positions, type changes, nesting).
// mergeNum: one symbolic digit, or (litnums=1) a number literal that must survive verbatim: dEdd, 1e400, d.d
func mergeNum(name string, k int) *JV {
	if vx.ParamOr("litnums", 0) == 1 {
		return litNum(name+".", []int{5, 3, 0}[k%3])
	}
	return symNum(name)
}

func mergeVal(i int, p string) *JV {
	n := func(k int) *JV { return mergeNum(p+"n"+itoa(k), k) }
	switch i {
	case 0:
		return jNull()
	case 1:
		return n(0)
	case 2:
		return symStr1(p + "s0")
	case 3:
		return jObj()
	case 4:
		return jObj().with("k", jNull())
	case 5:
		return jObj().with("k", n(0))
	case 6:
		return jObj().with("k", jObj().with("j", jNull()))
	case 7:
		return &JV{K: JArr, Kids: []*JV{}}
	case 8:
		return jArr(jNull())
	case 9:
		return jArr(jObj().with("k", jNull()))
	case 10:
		// adjacent nulls followed by a survivor (pruning while iterating)
		return jObj().with("k", jNull()).with("j", jNull()).with("i", n(0))
	case 11:
		return jObj().with("k", jNull()).with("j", jObj().with("i", jNull()).with("h", n(0))).with("g", n(1))
	case 12:
		return symEscStr(p + "e0")
	}
	panic("mergeVal")
}

const nDocVals = 7

// docVal: the document-side focus set W.
func docVal(i int, p string) *JV {
	n := func(k int) *JV { return mergeNum(p+"n"+itoa(k), k) }
	switch i {
	case 0:
		return n(0)
	case 1:
		return symStr1(p + "s0")
	case 2:
		return jObj().with("k", n(0))
	case 3:
		return jObj().with("k", jObj().with("j", n(0)))
	case 4:
		return jArr(n(0))
	case 5:
		return jNull()
	case 6:
		return symEscStr(p + "e0")
	}
	panic("docVal")
}

// genObjPatch: an object with 0..maxM members named by one symbolic letter (a..d) each, values from V.
func genObjPatch(p string, maxM, nVals int) *JV {
	o := jObj()
	m := vx.Choose(p+"m", maxM+1)
	for k := 0; k < m; k++ {
		name := []byte{symLetter(p + "k" + itoa(k))}
		if vx.ParamOr("emptynames", 0) == 1 && vx.Choose(p+"k"+itoa(k)+".empty", 2) == 1 {
			name = []byte{}
		}
		if vx.ParamOr("escnames", 0) == 1 && vx.Choose(p+"k"+itoa(k)+".esc", 2) == 1 {
			// a name spelled through the escape alphabet (short escapes, raw U+2028 ...)
			nv, nsp := symEscName(p + "k" + itoa(k) + ".e")
			for len(o.KSp) < len(o.Keys) {
				o.KSp = append(o.KSp, nil)
			}
			o.Keys = append(o.Keys, nv)
			o.KSp = append(o.KSp, nsp)
			o.Kids = append(o.Kids, mergeVal(vx.Choose(p+"v"+itoa(k), nVals), p+itoa(k)+"."))
			continue
		}
		if o.KSp != nil {
			o.KSp = append(o.KSp, nil)
		}
		o.withB(name, mergeVal(vx.Choose(p+"v"+itoa(k), nVals), p+itoa(k)+"."))
	}
	vx.Assume(!o.hasDupKeys())
	return o
}

// genNonObjPatch: patches that are not objects (replace the document wholesale).
func genNonObjPatch(p string) *JV {
	switch vx.Choose(p+"kind", 7) {
	case 0:
		return jNull()
	case 1:
		return symNum(p + "n")
	case 2:
		return symStr1(p + "s")
	case 3:
		return &JV{K: JArr, Kids: []*JV{}}
	case 4:
		return jArr(jNull())
	case 5:
		return jArr(jObj().with("k", jNull()))
	case 6:
		return jBool(true)
	}
	panic("genNonObjPatch")
}

// genDoc: documents with concrete member names a, b (collisions with patch names are solver-decided).
func genDoc(p string, maxM, nVals int, nonObjRoots bool) *JV {
	kinds := maxM + 1
	if nonObjRoots {
		kinds += 3
	}
	k := vx.Choose(p+"shape", kinds)
	names := []string{"a", "b", "c"}
	if k <= maxM {
		o := jObj()
		if vx.ParamOr("emptynames", 0) == 1 {
			names = []string{"", "a", "b"}
		}
		for j := 0; j < k; j++ {
			if j == 0 && vx.ParamOr("escnames", 0) == 1 {
				nv, nsp := symEscName(p + "k0.e")
				o.Keys = append(o.Keys, nv)
				o.KSp = append(o.KSp, nsp)
				o.Kids = append(o.Kids, docVal(vx.Choose(p+"v"+itoa(j), nVals), p+itoa(j)+"."))
				continue
			}
			if o.KSp != nil {
				o.KSp = append(o.KSp, nil)
			}
			o.with(names[j], docVal(vx.Choose(p+"v"+itoa(j), nVals), p+itoa(j)+"."))
		}
		vx.Assume(!o.hasDupKeys())
		return o
	}
	switch k - maxM {
	case 1:
		return jArr(symNum(p + "an"))
	case 2:
		return symNum(p + "rn")
	case 3:
		return symStr1(p + "rs")
	}
	panic("genDoc")
}

// mergeOrderOK: surviving members of the document keep their relative order and precede added ones (C05).
func mergeOrderOK(got, doc *JV) bool {
	if got.K != JObj || doc.K != JObj {
		return true
	}
	last := -1
	seenNew := false
	for i, k := range got.Keys {
		j := doc.find(k)
		if j < 0 {
			seenNew = true
			continue
		}
		if seenNew || j < last {
			return false
		}
		last = j
		if !mergeOrderOK(got.Kids[i], doc.Kids[j]) {
			return false
		}
	}
	return true
}

// ---------------------------------------------------------------- C02

// H_Merge: MergePatch(doc, patch) equals RFC 7396 MergePatch.
func H_Merge() {
	D := genDoc("d.", vx.Param("docm"), vx.Param("docvals"), true)
	var P *JV
	if vx.Choose("pkind", 2) == 0 {
		P = genObjPatch("p.", vx.Param("patchm"), vx.Param("patchvals"))
	} else {
		P = genNonObjPatch("p.")
	}
	dB, pB := render(D), render(P)
	vx.Note("doc", dB)
	vx.Note("patch", pB)
	var out []byte
	var err error
	panicked := vx.CatchPanic(func() { out, err = jsonpatch.MergePatch(dB, pB) })
	vx.Assert(!panicked, "C04/merge-no-panic")
	vx.Assert(!panicked, "C02/merge-returns")
	vx.Assert(!panicked, "C19/merge-returns")
	vx.Assert(!panicked, "C15/merge-returns")
	vx.Assert(!panicked, "C05/merge-returns")
	if panicked {
		vx.Note("panic", []byte(vx.PanicMsg()))
		return
	}
	vx.Assert(err == nil, "C02/succeeds")
	if P.K == JObj || P.K == JArr {
		vx.Assert(err == nil, "C19/merge-succeeds")
	}
	if err != nil {
		return
	}
	got, ok := parseJSON(out)
	vx.Assert(ok, "C15/merge-output-parses")
	vx.Assert(ok, "C02/output-parses")
	if !ok {
		return
	}
	want := refMerge(D, P)
	vx.Assert(refEqual(got, want), "C02/result-equals-rfc7396")
	if P.K == JObj || P.K == JArr {
		vx.Assert(refEqual(got, want), "C19/merge-result-equals-rfc7396")
	}
	if P.K != JObj {
		vx.Reach("merge/non-object-patch")
	} else {
		vx.Reach("merge/object-patch")
		vx.Assert(mergeOrderOK(got, D), "C05/merge-order")
	}
	vx.Reach("merge/end")
}

// ---------------------------------------------------------------- C07

// compatible: wherever p2 holds an object, p1 holds an object or nothing at that path.
func compatible(p1, p2 *JV) bool {
	if p2.K != JObj {
		return true
	}
	if p1.K != JObj {
		return false
	}
	for i, k := range p2.Keys {
		v2 := p2.Kids[i]
		if v2.K != JObj {
			continue
		}
		j := p1.find(k)
		if j < 0 {
			continue
		}
		if !compatible(p1.Kids[j], v2) {
			return false
		}
	}
	return true
}

// H_MergeMerge: applying MergeMergePatches(p1, p2) equals applying p1 then p2.
func H_MergeMerge() {
	D := genDoc("d.", vx.Param("docm"), vx.Param("docvals"), vx.Param("nonobjdocs") == 1)
	P1 := genObjPatch("p1.", vx.Param("patchm"), vx.Param("patchvals"))
	var P2 *JV
	if vx.Choose("p2kind", 2) == 0 {
		P2 = genObjPatch("p2.", vx.Param("patchm"), vx.Param("patchvals"))
	} else {
		P2 = genNonObjPatch("p2.")
	}
	if P2.K == JObj && !compatible(P1, P2) {
		vx.Reach("mm/incompatible-outside")
		return
	}
	dB, p1B, p2B := render(D), render(P1), render(P2)
	vx.Note("doc", dB)
	vx.Note("p1", p1B)
	vx.Note("p2", p2B)
	var comb []byte
	var err error
	panicked := vx.CatchPanic(func() { comb, err = jsonpatch.MergeMergePatches(p1B, p2B) })
	vx.Assert(!panicked, "C04/mergemerge-no-panic")
	vx.Assert(!panicked, "C07/mergemerge-returns")
	vx.Assert(!panicked, "C19/mergemerge-returns")
	vx.Assert(!panicked, "C15/mergemerge-returns")
	if panicked {
		vx.Note("panic", []byte(vx.PanicMsg()))
		return
	}
	vx.Assert(err == nil, "C07/succeeds")
	if P2.K == JObj || P2.K == JArr {
		vx.Assert(err == nil, "C19/mm-succeeds")
	}
	if err != nil {
		return
	}
	C, ok := parseJSON(comb)
	vx.Assert(ok, "C15/mergemerge-output-parses")
	vx.Assert(ok, "C07/output-parses")
	if !ok {
		return
	}
	if P2.K != JObj {
		vx.Assert(refEqual(C, P2), "C07/non-object-p2-wins")
		if P2.K == JArr {
			vx.Assert(refEqual(C, P2), "C19/mm-array-p2-wins")
		}
		vx.Reach("mm/non-object-p2")
		return
	}
	seq := refMerge(refMerge(D, P1), P2)
	one := refMerge(D, C)
	vx.Assert(refEqual(seq, one), "C07/composition-law")
	vx.Assert(refEqual(seq, one), "C19/mm-composition-law")
	// and through the library's own MergePatch
	var out []byte
	panicked = vx.CatchPanic(func() { out, err = jsonpatch.MergePatch(dB, comb) })
	vx.Assert(!panicked, "C04/merge-no-panic")
	vx.Assert(!panicked, "C02/merge-returns")
	vx.Assert(!panicked, "C19/merge-returns")
	if panicked || err != nil {
		vx.Assert(err == nil, "C07/library-merge-succeeds")
		return
	}
	got, ok := parseJSON(out)
	vx.Assert(ok, "C07/library-output-parses")
	if !ok {
		return
	}
	vx.Assert(refEqual(got, seq), "C07/composition-law-library")
	vx.Reach("mm/end")
}

// ---------------------------------------------------------------- C03

// minimal checks that every member P mentions differs between A and B at that path,
// removed members appear as null and new values are carried over verbatim.
func minimalPatch(P, A, B *JV) bool {
	if P.K != JObj {
		return false
	}
	acc := true
	for i, k := range P.Keys {
		v := P.Kids[i]
		ia, ib := A.find(k), B.find(k)
		switch {
		case ib < 0:
			// removed: must exist in A and be spelled null
			if ia < 0 || v.K != JNull {
				return false
			}
		case ia < 0:
			acc = vx.And(acc, refEqual(v, B.Kids[ib]))
		default:
			a, b := A.Kids[ia], B.Kids[ib]
			if a.K == JObj && b.K == JObj {
				if v.K != JObj || len(v.Kids) == 0 {
					return false
				}
				if !minimalPatch(v, a, b) {
					return false
				}
			} else {
				acc = vx.And(acc, vx.And(!refEqual(a, b), refEqual(v, b)))
			}
		}
	}
	return acc
}

const nCreateVals = 18

func createVal(i int, p string) *JV {
	n := func(k int) *JV { return symNum(p + "n" + itoa(k)) }
	switch i {
	case 0:
		return n(0)
	case 1:
		return symStr1(p + "s0")
	case 2:
		return jObj().with("k", n(0))
	case 3:
		return jObj().with("k", n(0)).with("j", n(1))
	case 4:
		return jArr(n(0))
	case 5:
		return jObj()
	case 6:
		return jBool(true)
	case 7:
		return jNull()
	case 8:
		return jArr(jObj().with("k", n(0)).with("j", n(1)))
	case 9:
		return jArr(jObj().with("k", n(0)))
	case 10:
		return jArr(n(0), n(1))
	case 11:
		return jArr(jArr(jObj().with("k", n(0)).with("j", n(1))))
	case 12:
		return jArr(jArr(jObj().with("k", n(0))))
	case 13:
		return jArr(jObj().with("k", jObj().with("i", n(0)).with("j", n(1))))
	case 14:
		return jArr(jObj().with("k", jObj().with("i", n(0))))
	case 15:
		return jArr(jObj().with("k", jNull()))
	case 16:
		return symEscStr(p + "e0")
	case 17:
		return jArr(symEscStr(p + "e0"))
	}
	panic("createVal")
}

func genCreateObj(p string, maxM, nVals int) *JV {
	o := jObj()
	m := vx.Choose(p+"m", maxM+1)
	for k := 0; k < m; k++ {
		o.withB([]byte{symLetter(p + "k" + itoa(k))}, createVal(chooseMask(p+"v"+itoa(k), nVals, nCreateVals), p+itoa(k)+"."))
	}
	vx.Assume(!o.hasDupKeys())
	return o
}

func checkCreate(A, B *JV, P *JV, pB, aB []byte, pfx string) {
	if !B.hasNullMember() {
		vx.Assert(refEqual(refMerge(A, P), B), pfx+"/patch-reproduces-target")
		var out []byte
		var err error
		panicked := vx.CatchPanic(func() { out, err = jsonpatch.MergePatch(aB, pB) })
		vx.Assert(!panicked && err == nil, pfx+"/library-merge-succeeds")
		if !panicked && err == nil {
			got, ok := parseJSON(out)
			vx.Assert(ok, pfx+"/library-output-parses")
			if ok {
				vx.Assert(refEqual(got, B), pfx+"/patch-reproduces-target-library")
			}
		}
		vx.Reach("create/no-null-target")
	}
	empty := P.K == JObj && len(P.Kids) == 0
	vx.Assert(empty == refEqual(A, B), pfx+"/empty-iff-equal")
	if !A.hasNullMember() && !B.hasNullMember() {
		vx.Assert(minimalPatch(P, A, B), pfx+"/minimal")
	}
}

// H_Create: CreateMergePatch(A, B) for objects.
func H_Create() {
	A := genCreateObj("a.", vx.Param("m"), vx.Param("vals"))
	B := genCreateObj("b.", vx.Param("m"), vx.Param("vals"))
	aB, bB := render(A), render(B)
	vx.Note("a", aB)
	vx.Note("b", bB)
	var pB []byte
	var err error
	panicked := vx.CatchPanic(func() { pB, err = jsonpatch.CreateMergePatch(aB, bB) })
	vx.Assert(!panicked, "C04/create-no-panic")
	vx.Assert(!panicked, "C03/create-returns")
	vx.Assert(!panicked, "C19/create-returns")
	vx.Assert(!panicked, "C15/create-returns")
	if panicked {
		vx.Note("panic", []byte(vx.PanicMsg()))
		return
	}
	vx.Assert(err == nil, "C03/succeeds")
	vx.Assert(err == nil, "C19/create-succeeds")
	if err != nil {
		return
	}
	P, ok := parseJSON(pB)
	vx.Assert(ok, "C15/create-output-parses")
	vx.Assert(ok, "C03/output-parses")
	if !ok {
		return
	}
	vx.Note("patch", pB)
	checkCreate(A, B, P, pB, aB, "C03")
	checkCreate(A, B, P, pB, aB, "C19")
	vx.Reach("create/end")
}

// H_CreateArr: arrays of objects, element by element; mismatched lengths and roots are rejected.
func H_CreateArr() {
	na := vx.Choose("na", 3)
	nb := vx.Choose("nb", 3)
	A := &JV{K: JArr, Kids: []*JV{}}
	B := &JV{K: JArr, Kids: []*JV{}}
	for k := 0; k < na; k++ {
		A.Kids = append(A.Kids, genCreateObj("a"+itoa(k)+".", 1, vx.Param("vals")))
	}
	for k := 0; k < nb; k++ {
		B.Kids = append(B.Kids, genCreateObj("b"+itoa(k)+".", 1, vx.Param("vals")))
	}
	aB, bB := render(A), render(B)
	vx.Note("a", aB)
	vx.Note("b", bB)
	var pB []byte
	var err error
	panicked := vx.CatchPanic(func() { pB, err = jsonpatch.CreateMergePatch(aB, bB) })
	vx.Assert(!panicked, "C04/create-no-panic")
	vx.Assert(!panicked, "C03/create-returns")
	vx.Assert(!panicked, "C19/create-returns")
	vx.Assert(!panicked, "C15/create-returns")
	if panicked {
		vx.Note("panic", []byte(vx.PanicMsg()))
		return
	}
	if na != nb {
		vx.Assert(err != nil, "C03/unequal-lengths-rejected")
		vx.Reach("createarr/rejected")
		return
	}
	vx.Assert(err == nil, "C03/arrays-succeed")
	if err != nil {
		return
	}
	P, ok := parseJSON(pB)
	vx.Assert(ok && P.K == JArr && len(P.Kids) == na, "C03/array-output-shape")
	if !ok || P.K != JArr || len(P.Kids) != na {
		return
	}
	for k := 0; k < na; k++ {
		if !B.Kids[k].hasNullMember() {
			vx.Assert(refEqual(refMerge(A.Kids[k], P.Kids[k]), B.Kids[k]), "C03/array-element-reproduces-target")
		}
		vx.Assert((len(P.Kids[k].Kids) == 0 && P.Kids[k].K == JObj) == refEqual(A.Kids[k], B.Kids[k]), "C03/array-element-empty-iff-equal")
	}
	vx.Reach("createarr/end")
}

// H_CreateReject: roots that are not both objects / both arrays of objects are rejected.
func H_CreateReject() {
	roots := func(p string) *JV {
		switch vx.Choose(p+"root", 7) {
		case 0:
			return jObj().with("a", symNum(p+"n"))
		case 1:
			return jArr(jObj().with("a", symNum(p+"n")))
		case 2:
			return symNum(p + "n")
		case 3:
			return symStr1(p + "s")
		case 4:
			return jBool(true)
		case 5:
			return jArr(symNum(p + "n"))
		case 6:
			return &JV{K: JArr, Kids: []*JV{}}
		}
		panic("roots")
	}
	A, B := roots("a."), roots("b.")
	aB, bB := render(A), render(B)
	vx.Note("a", aB)
	vx.Note("b", bB)
	var err error
	panicked := vx.CatchPanic(func() { _, err = jsonpatch.CreateMergePatch(aB, bB) })
	vx.Assert(!panicked, "C04/create-no-panic")
	vx.Assert(!panicked, "C03/create-returns")
	vx.Assert(!panicked, "C19/create-returns")
	vx.Assert(!panicked, "C15/create-returns")
	if panicked {
		vx.Note("panic", []byte(vx.PanicMsg()))
		return
	}
	objs := func(v *JV) bool {
		if v.K != JArr {
			return false
		}
		for _, k := range v.Kids {
			if k.K != JObj {
				return false
			}
		}
		return true
	}
	okPair := (A.K == JObj && B.K == JObj) || (objs(A) && objs(B) && len(A.Kids) == len(B.Kids))
	if okPair {
		vx.Assert(err == nil, "C03/accepts-valid-roots")
		vx.Reach("createreject/accepted")
	} else {
		vx.Assert(err != nil, "C03/rejects-other-roots")
		vx.Reach("createreject/rejected")
	}
}

// H_Create_Legacy: as H_Create with concrete numbers (the legacy CreateMergePatch decodes numbers as float64).
func H_Create_Legacy() {
	concreteNums = true
	H_Create()
}

// H_CreateBig (C03, C15, C17): numbers that float64 cannot hold exactly must be carried into the patch verbatim,
// also on the very first decode of a process (fresh pooled decoder state).
func H_CreateBig() {
	// two spellings of neighbouring integers above 2^53 and of neighbouring decimals: different numbers (different
	// literals) that one float64 cannot tell apart
	d1, d2 := symDigit("big.d1"), symDigit("big.d2")
	a := []byte(`{"id":1,"ratio":0.5,"keep":12345678901234567890123,"e":1E5,"near":900719925474099` + string([]byte{d1}) + `,"tiny":0.1000000000000000` + string([]byte{d1}) + `}`)
	b := []byte(`{"id":9007199254740993,"ratio":0.1234567890123456789,"keep":12345678901234567890123,"e":1E5,"near":900719925474099` + string([]byte{d2}) + `,"tiny":0.1000000000000000` + string([]byte{d2}) + `,"new":1e400}`)
	vx.Note("a", a)
	vx.Note("b", b)
	var pB []byte
	var err error
	panicked := vx.CatchPanic(func() { pB, err = jsonpatch.CreateMergePatch(a, b) })
	vx.Assert(!panicked && err == nil, "C03/big-numbers-succeeds")
	vx.Assert(!panicked && err == nil, "C15/create-big-numbers-succeeds")
	vx.Assert(!panicked && err == nil, "C17/big-numbers-decode")
	vx.Assert(!panicked && err == nil, "C16/well-formed-numbers-accepted-on-fresh-state")
	vx.Assert(!panicked, "C04/create-no-panic")
	if panicked || err != nil {
		return
	}
	vx.Note("patch", pB)
	P, ok := parseJSON(pB)
	vx.Assert(ok, "C15/create-output-parses")
	if !ok {
		return
	}
	wantB := []byte(`{"id":9007199254740993,"ratio":0.1234567890123456789,"new":1e400}`)
	if d1 != d2 {
		wantB = []byte(`{"id":9007199254740993,"ratio":0.1234567890123456789,"near":900719925474099` + string([]byte{d2}) + `,"tiny":0.1000000000000000` + string([]byte{d2}) + `,"new":1e400}`)
	}
	want, _ := parseJSON(wantB)
	vx.Assert(refEqual(P, want), "C03/number-literals-carried-over-unchanged")
	vx.Assert(refEqual(P, want), "C15/create-reads-back-as-intended-value")
	vx.Assert(refEqual(P, want), "C17/number-literals-kept")
	vx.Reach("createbig/end")
}
