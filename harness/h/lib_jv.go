package zzverif

// JSON value trees used by generators and oracles. Independent of the
// library's data structures. Runs under the symbolic executor (contents may be
// symbolic bytes; shapes are always concrete) and natively.

import (
	"github.com/evanphx/json-patch/v5/zzverif/vx"
)

const (
	JNull = iota
	JFalse
	JTrue
	JNum
	JStr
	JObj
	JArr
)

type JV struct {
	K    int
	Lit  []byte   // JNum: literal text; JStr: the string's value (decoded bytes)
	Sp   []byte   // JStr: spelling between the quotes in rendered text (nil: same as Lit, which must then need no escaping)
	Keys [][]byte // JObj: member names (values)
	KSp  [][]byte // JObj: member name spellings (nil entries / nil slice: same as Keys)
	Kids []*JV
}

func jNull() *JV { return &JV{K: JNull} }
func jBool(b bool) *JV {
	if b {
		return &JV{K: JTrue}
	}
	return &JV{K: JFalse}
}
func jNum(lit []byte) *JV  { return &JV{K: JNum, Lit: lit} }
func jNumS(lit string) *JV { return &JV{K: JNum, Lit: []byte(lit)} }
func jStr(val []byte) *JV  { return &JV{K: JStr, Lit: val} }
func jStrS(val string) *JV { return &JV{K: JStr, Lit: []byte(val)} }
func jStrSp(val, sp []byte) *JV {
	return &JV{K: JStr, Lit: val, Sp: sp}
}
func jArr(kids ...*JV) *JV { return &JV{K: JArr, Kids: kids} }
func jObj() *JV            { return &JV{K: JObj} }

func (o *JV) with(key string, v *JV) *JV {
	o.Keys = append(o.Keys, []byte(key))
	o.Kids = append(o.Kids, v)
	return o
}

func (o *JV) withB(key []byte, v *JV) *JV {
	o.Keys = append(o.Keys, key)
	o.Kids = append(o.Kids, v)
	return o
}

func (v *JV) clone() *JV {
	if v == nil {
		return nil
	}
	c := &JV{K: v.K, Lit: v.Lit, Sp: v.Sp}
	if v.Keys != nil {
		c.Keys = append([][]byte(nil), v.Keys...)
	}
	if v.KSp != nil {
		c.KSp = append([][]byte(nil), v.KSp...)
	}
	if v.Kids != nil {
		c.Kids = make([]*JV, len(v.Kids))
		for i, k := range v.Kids {
			c.Kids[i] = k.clone()
		}
	}
	return c
}

func (v *JV) isContainer() bool { return v.K == JObj || v.K == JArr }

// find returns the index of member name in object o, or -1 (forks on symbolic names).
func (o *JV) find(name []byte) int {
	for i, k := range o.Keys {
		if len(k) == len(name) && vx.EqBytes(k, name) {
			return i
		}
	}
	return -1
}

func (o *JV) del(i int) {
	o.Keys = append(append([][]byte(nil), o.Keys[:i]...), o.Keys[i+1:]...)
	if o.KSp != nil {
		o.KSp = append(append([][]byte(nil), o.KSp[:i]...), o.KSp[i+1:]...)
	}
	o.Kids = append(append([]*JV(nil), o.Kids[:i]...), o.Kids[i+1:]...)
}

func (a *JV) delElem(i int) {
	a.Kids = append(append([]*JV(nil), a.Kids[:i]...), a.Kids[i+1:]...)
}

func (a *JV) insElem(i int, v *JV) {
	n := make([]*JV, 0, len(a.Kids)+1)
	n = append(n, a.Kids[:i]...)
	n = append(n, v)
	n = append(n, a.Kids[i:]...)
	a.Kids = n
}

// set stores v under name: existing members keep their position, new ones are appended.
func (o *JV) set(name []byte, v *JV) {
	if i := o.find(name); i >= 0 {
		o.Kids[i] = v
		return
	}
	if o.KSp != nil {
		o.KSp = append(o.KSp, nil)
	}
	o.Keys = append(o.Keys, name)
	o.Kids = append(o.Kids, v)
}

// hasDupKeys reports whether any object in the tree has two equal member names.
func (v *JV) hasDupKeys() bool {
	if v.K == JObj {
		for i := range v.Keys {
			for j := i + 1; j < len(v.Keys); j++ {
				if len(v.Keys[i]) == len(v.Keys[j]) && vx.EqBytes(v.Keys[i], v.Keys[j]) {
					return true
				}
			}
		}
	}
	for _, k := range v.Kids {
		if k.hasDupKeys() {
			return true
		}
	}
	return false
}

// hasNullMember reports whether any object in the tree has a null-valued member.
func (v *JV) hasNullMember() bool {
	for _, k := range v.Kids {
		if v.K == JObj && k.K == JNull {
			return true
		}
		if k.hasNullMember() {
			return true
		}
	}
	return false
}

func (v *JV) nodes() int {
	n := 1
	for _, k := range v.Kids {
		n += k.nodes()
	}
	return n
}

// ---------------------------------------------------------------- rendering

func appendQuoted(out []byte, val, sp []byte) []byte {
	out = append(out, '"')
	if sp != nil {
		out = append(out, sp...)
	} else {
		out = append(out, val...)
	}
	return append(out, '"')
}

func renderTo(out []byte, v *JV) []byte {
	switch v.K {
	case JNull:
		return append(out, "null"...)
	case JFalse:
		return append(out, "false"...)
	case JTrue:
		return append(out, "true"...)
	case JNum:
		return append(out, v.Lit...)
	case JStr:
		return appendQuoted(out, v.Lit, v.Sp)
	case JObj:
		out = append(out, '{')
		for i, k := range v.Keys {
			if i > 0 {
				out = append(out, ',')
			}
			var sp []byte
			if v.KSp != nil {
				sp = v.KSp[i]
			}
			out = appendQuoted(out, k, sp)
			out = append(out, ':')
			out = renderTo(out, v.Kids[i])
		}
		return append(out, '}')
	case JArr:
		out = append(out, '[')
		for i, k := range v.Kids {
			if i > 0 {
				out = append(out, ',')
			}
			out = renderTo(out, k)
		}
		return append(out, ']')
	}
	panic("renderTo: bad kind")
}

func render(v *JV) []byte { return renderTo(make([]byte, 0, 32), v) }

// ---------------------------------------------------------------- structural equality (reference)

// eqLeafBytes compares two byte strings as one boolean term.
func eqLeafBytes(a, b []byte) bool {
	if len(a) != len(b) {
		return false
	}
	return vx.EqBytes(a, b)
}

// refEqual: same type, same members regardless of order, same elements in order,
// strings equal by value, numbers by literal. The result may be a symbolic boolean.
func refEqual(a, b *JV) bool {
	if a.K != b.K {
		return false
	}
	switch a.K {
	case JNull, JFalse, JTrue:
		return true
	case JNum, JStr:
		return eqLeafBytes(a.Lit, b.Lit)
	case JArr:
		if len(a.Kids) != len(b.Kids) {
			return false
		}
		acc := true
		for i := range a.Kids {
			acc = vx.And(acc, refEqual(a.Kids[i], b.Kids[i]))
		}
		return acc
	case JObj:
		if len(a.Kids) != len(b.Kids) {
			return false
		}
		acc := true
		for i, k := range a.Keys {
			j := b.find(k)
			if j < 0 {
				return false
			}
			acc = vx.And(acc, refEqual(a.Kids[i], b.Kids[j]))
		}
		return acc
	}
	panic("refEqual: bad kind")
}

// refEqualOrdered additionally requires members in the same order.
func refEqualOrdered(a, b *JV) bool {
	if a.K != b.K {
		return false
	}
	switch a.K {
	case JNull, JFalse, JTrue:
		return true
	case JNum, JStr:
		return eqLeafBytes(a.Lit, b.Lit)
	case JArr, JObj:
		if len(a.Kids) != len(b.Kids) {
			return false
		}
		acc := true
		for i := range a.Kids {
			if a.K == JObj {
				acc = vx.And(acc, eqLeafBytes(a.Keys[i], b.Keys[i]))
			}
			acc = vx.And(acc, refEqualOrdered(a.Kids[i], b.Kids[i]))
		}
		return acc
	}
	panic("refEqualOrdered: bad kind")
}

// renderWS renders v with insignificant whitespace (space, newline, tab, carriage return in rotation) around every
// structural token: the same value as render(v), a different text.
func renderWS(v *JV) []byte {
	n := 0
	ws := func(out []byte) []byte {
		n++
		return append(out, " \n\t\r"[n%4])
	}
	var r func(out []byte, x *JV) []byte
	r = func(out []byte, x *JV) []byte {
		out = ws(out)
		switch x.K {
		case JObj:
			out = append(out, '{')
			for i := range x.Keys {
				if i > 0 {
					out = append(out, ',')
				}
				out = ws(out)
				var sp []byte
				if x.KSp != nil {
					sp = x.KSp[i]
				}
				out = appendQuoted(out, x.Keys[i], sp)
				out = ws(out)
				out = append(out, ':')
				out = r(out, x.Kids[i])
			}
			out = ws(out)
			out = append(out, '}')
		case JArr:
			out = append(out, '[')
			for i := range x.Kids {
				if i > 0 {
					out = append(out, ',')
				}
				out = r(out, x.Kids[i])
			}
			out = ws(out)
			out = append(out, ']')
		default:
			out = renderTo(out, x)
		}
		return ws(out)
	}
	return r(nil, v)
}

// dedupLast returns v with repeated member names collapsed to the LAST occurrence's value at the FIRST occurrence's
// position (how every JSON decoder into a map reads such a text); nested objects likewise.
func dedupLast(v *JV) *JV {
	c := &JV{K: v.K, Lit: v.Lit, Sp: v.Sp}
	if v.K == JObj {
		for i, k := range v.Keys {
			j := c.find(k)
			if j >= 0 {
				c.Kids[j] = dedupLast(v.Kids[i])
				continue
			}
			c.Keys = append(c.Keys, k)
			c.Kids = append(c.Kids, dedupLast(v.Kids[i]))
		}
		return c
	}
	for _, k := range v.Kids {
		c.Kids = append(c.Kids, dedupLast(k))
	}
	return c
}
