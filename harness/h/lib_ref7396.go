package zzverif

// refMerge7396: RFC 7396 section 2 pseudo-code on JV trees. Member order is
// tracked for C05: surviving members keep document order, additions are appended.

func refMerge(target, patch *JV) *JV {
	if patch.K != JObj {
		return patch.clone()
	}
	var t *JV
	if target != nil && target.K == JObj {
		t = target.clone()
	} else {
		t = jObj()
	}
	for i, name := range patch.Keys {
		v := patch.Kids[i]
		j := t.find(name)
		if v.K == JNull {
			if j >= 0 {
				t.del(j)
			}
			continue
		}
		if j >= 0 {
			t.Kids[j] = refMerge(t.Kids[j], v)
		} else {
			t.Keys = append(t.Keys, name)
			t.Kids = append(t.Kids, refMerge(nil, v))
		}
	}
	return t
}
