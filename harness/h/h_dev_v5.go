package zzverif

import (
	jsonpatch "github.com/evanphx/json-patch/v5"
	json2 "github.com/evanphx/json-patch/v5/internal/json"
	"github.com/evanphx/json-patch/v5/zzverif/vx"
)

func H_Dev_Apply() {
	doc := []byte(`{"a":1,"b":[1,2]}`)
	pt := []byte(`[{"op":"add","path":"/c","value":3},{"op":"remove","path":"/b/0"},{"op":"copy","from":"/b","path":"/d"},{"op":"test","path":"/a","value":1}]`)
	p, err := jsonpatch.DecodePatch(pt)
	if err != nil {
		vx.ObserveStr("decode-err", err.Error())
		return
	}
	out, err := p.Apply(doc)
	if err != nil {
		vx.ObserveStr("apply-err", err.Error())
		return
	}
	vx.Observe("out", out)
	vx.Assert(string(out) == `{"a":1,"b":[2],"c":3,"d":[2]}`, "C01/dev")
}

func H_Dev_Equal() {
	vx.Assert(jsonpatch.Equal([]byte(`{"a":[1,2,"x"],"b":{"c":true}}`), []byte(`{ "b":{"c":true}, "a":[1,2,"x"]}`)), "C06/dev1")
	vx.Assert(!jsonpatch.Equal([]byte(`{"a":1}`), []byte(`{"a":2}`)), "C06/dev2")
}

func H_Dev_Merge() {
	out, err := jsonpatch.MergePatch([]byte(`{"a":1,"b":{"c":2,"d":3}}`), []byte(`{"b":{"c":null,"e":[1,null]},"f":"x"}`))
	if err != nil {
		vx.ObserveStr("err", err.Error())
		return
	}
	vx.Observe("out", out)
	p, err := jsonpatch.CreateMergePatch([]byte(`{"a":1,"b":{"c":2,"d":3}}`), []byte(`{"a":1,"b":{"d":4},"g":[1,2]}`))
	if err != nil {
		vx.ObserveStr("err2", err.Error())
		return
	}
	vx.Observe("patch", p)
}

func H_Dev_NullMerge() {
	var err error
	var out []byte
	p := vx.CatchPanic(func() { out, err = jsonpatch.MergePatch([]byte("null"), []byte("[1]")) })
	if p {
		vx.ObserveStr("panic", vx.PanicMsg())
	}
	vx.Observe("out", out)
	if err != nil {
		vx.ObserveStr("err", err.Error())
	}
}

func H_Dev_Struct() {
	var x tagged
	err := json2.Unmarshal([]byte(`{"name":"a","e":"q"}`), &x)
	if err != nil {
		vx.ObserveStr("err", err.Error())
	}
	vx.ObserveStr("name", x.Name)
	vx.ObserveStr("e", x.E)
}
