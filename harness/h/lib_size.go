package zzverif

import (
	"github.com/evanphx/json-patch/v5/zzverif/vx"
)

// escapedSize: length of the compact rendering of v with <, >, & spelled as \u00XX when escape is on
// (plain-ASCII strings and names only: the generators produce nothing else).
func escapedSize(v *JV, escape bool) int {
	n := len(render(v))
	extra := 0
	var walk func(x *JV)
	count := func(b []byte) {
		for _, c := range b {
			extra += 5 * vx.B2I(vx.Or(vx.Or(c == '<', c == '>'), c == '&'))
		}
	}
	walk = func(x *JV) {
		if x.K == JStr {
			count(x.Lit)
		}
		for _, k := range x.Keys {
			count(k)
		}
		for _, k := range x.Kids {
			walk(k)
		}
	}
	walk(v)
	if escape {
		return n + extra
	}
	return n
}
