package zzverif

// C09: calls are pure. Inputs are never written, and the result of a call does not depend on what was
// called before (pools and caches of the codec are recycled between calls exactly as on one goroutine).

import (
	jsonpatch "github.com/evanphx/json-patch/v5"
	"github.com/evanphx/json-patch/v5/zzverif/vx"
)

type hCall struct {
	kind int
	a, b []byte // the []byte arguments (document/patch, or the two texts)
}

type hRes struct {
	out []byte
	ok  bool
}

const (
	hApply = iota
	hApplyIndent
	hCreate
	hEqual
	hMerge
	hMergeMerge
	nBKinds
	// calls used only as history (failing or malformed)
	hApplyFails = iota - 1
	hApplyBadDoc
	hDecodeBad
	hMergeBad
	hEqualBad
	hCreateBad
	hApplyNoEscape
	nAKinds
)

// number leaves are concrete digits chosen by enumeration (a decoder that falls back to float64 parses them;
// the engine has no float theory); "big" differs from its float64 rounding in the last digit
func hDigit(name string) string {
	if len(name) < 2 || name[0] != 'x' {
		return "1" // intervening calls use fixed numbers; only the repeated call B varies
	}
	return string([]byte{byte('1' + vx.Choose(name, 2))})
}

func hDoc(p string) []byte {
	return []byte(`{ "a" : ` + hDigit(p+"d") + `,"b":{"c":"` + string([]byte{symPlain(p + "s")}) + `"}, "l":[1, null],"w":{"k":[1]},"big":1234567890123456789` + hDigit(p+"g") + ` }`)
}

func hPatch(p string) []byte {
	return []byte(`[{"op":"add","path":"/z","value":` + hDigit(p+"v") + `},{"op":"copy","from":"/b","path":"/y"},{"op":"test","path":"/l","value":[ 1 , null ]},{"op":"test","path":"/w","value":{ "k" : [ 1 ] }},{"op":"add","path":"/huge","value":1e400},{"op":"add","path":"/nl","value":[1]},{"op":"add","path":"/nl/-","value":2},{"op":"add","path":"/no","value":{"x":1,"y":2}},{"op":"remove","path":"/no/y"},{"op":"replace","path":"/no/x","value":[]},{"op":"add","path":"/nn","value":null},{"op":"test","path":"/nn","value":null}]`)
}

func hMergePatch(p string) []byte {
	return []byte(`{"b":{"c":null,"d":` + hDigit(p+"m") + `},"e":[null]}`)
}

// mkCall builds the arguments of call kind k from symbolic leaves named by prefix p.
func mkCall(k int, p string) hCall {
	c := hCall{kind: k}
	switch k {
	case hApply, hApplyIndent, hApplyNoEscape:
		c.a, c.b = hDoc(p), hPatch(p)
	case hCreate:
		c.a, c.b = hDoc(p), hDoc(p+"2")
	case hEqual:
		c.a, c.b = hDoc(p), hDoc(p+"2")
	case hMerge:
		c.a, c.b = hDoc(p), hMergePatch(p)
	case hMergeMerge:
		c.a, c.b = hMergePatch(p), hMergePatch(p+"2")
	case hApplyFails:
		c.a, c.b = hDoc(p), []byte(`[{"op":"add","path":"/q","value":1},{"op":"test","path":"/a","value":"no"}]`)
	case hApplyBadDoc:
		c.a, c.b = []byte(`{"a":[1,`), hPatch(p)
	case hDecodeBad:
		c.a, c.b = hDoc(p), []byte(`[{"op":"add","path":"/x","value":{"k":`)
	case hMergeBad:
		c.a, c.b = hDoc(p), []byte(`{"b":{"c":nul`)
	case hEqualBad:
		c.a, c.b = hDoc(p), []byte(`{"a":1,"b":{"c":"x"},"l":[1,null],"w":{"k":[1]},"big":1`)
	case hCreateBad:
		c.a, c.b = []byte(`{"a":{"b":[1,2`), hDoc(p)
	}
	return c
}

func (c hCall) run() hRes {
	var r hRes
	switch c.kind {
	case hApply, hApplyFails, hApplyBadDoc, hDecodeBad:
		p, err := jsonpatch.DecodePatch(c.b)
		if err != nil {
			return r
		}
		out, err := p.Apply(c.a)
		r.out, r.ok = out, err == nil
	case hApplyIndent:
		p, err := jsonpatch.DecodePatch(c.b)
		if err != nil {
			return r
		}
		out, err := p.ApplyIndent(c.a, "\t")
		r.out, r.ok = out, err == nil
	case hApplyNoEscape:
		p, err := jsonpatch.DecodePatch(c.b)
		if err != nil {
			return r
		}
		o := jsonpatch.NewApplyOptions()
		o.EscapeHTML = false
		o.AllowMissingPathOnRemove = true
		out, err := p.ApplyWithOptions(c.a, o)
		r.out, r.ok = out, err == nil
	case hCreate, hCreateBad:
		out, err := jsonpatch.CreateMergePatch(c.a, c.b)
		r.out, r.ok = out, err == nil
	case hEqual, hEqualBad:
		r.ok = true
		if jsonpatch.Equal(c.a, c.b) {
			r.out = []byte("true")
		} else {
			r.out = []byte("false")
		}
	case hMerge, hMergeBad:
		out, err := jsonpatch.MergePatch(c.a, c.b)
		r.out, r.ok = out, err == nil
	case hMergeMerge:
		out, err := jsonpatch.MergeMergePatches(c.a, c.b)
		r.out, r.ok = out, err == nil
	}
	return r
}

func clone(b []byte) []byte { return append([]byte(nil), b...) }

// sameResult: same success and same bytes (same JSON value for the merge functions, whose member order
// among additions is unspecified).
func sameResult(kind int, x, y hRes) bool {
	if x.ok != y.ok {
		return false
	}
	if !x.ok {
		return true
	}
	if kind == hMerge || kind == hMergeMerge {
		tx, ok1 := parseJSON(x.out)
		ty, ok2 := parseJSON(y.out)
		return ok1 && ok2 && refEqual(tx, ty)
	}
	return vx.EqBytes(x.out, y.out)
}

// H_History: r1 := B(x); 1..len arbitrary calls; r2 := B(x). Same outcome, r1 not overwritten, inputs unchanged.
func H_History() {
	bk := vx.Choose("B", nBKinds)
	B := mkCall(bk, "x.")
	a0, b0 := clone(B.a), clone(B.b)
	n := vx.Param("len")
	var As []hCall
	for i := 0; i < n; i++ {
		As = append(As, mkCall(vx.Choose("A"+itoa(i), nAKinds), "h"+itoa(i)+"."))
	}
	vx.Note("B.a", B.a)
	vx.Note("B.b", B.b)
	var r1, r2 hRes
	var r1snap []byte
	inputsOK := true
	panicked := vx.CatchPanic(func() {
		r1 = B.run()
		r1snap = clone(r1.out)
		for _, A := range As {
			sa, sb := clone(A.a), clone(A.b)
			A.run()
			inputsOK = vx.And(inputsOK, vx.And(vx.EqBytes(sa, A.a), vx.EqBytes(sb, A.b)))
		}
		r2 = B.run()
	})
	vx.Assert(!panicked, "C04/history-no-panic")
	vx.Assert(!panicked, "C09/history-returns")
	if panicked {
		vx.Note("panic", []byte(vx.PanicMsg()))
		return
	}
	vx.Assert(vx.And(vx.EqBytes(a0, B.a), vx.EqBytes(b0, B.b)), "C09/arguments-not-written")
	vx.Assert(inputsOK, "C09/arguments-of-intervening-calls-not-written")
	vx.Assert(vx.EqBytes(r1.out, r1snap), "C09/earlier-result-not-overwritten-by-later-calls")
	vx.Assert(sameResult(bk, hRes{out: r1snap, ok: r1.ok}, r2), "C09/same-call-same-outcome")
	if r1.ok {
		vx.Reach("history/B-succeeds")
	}
	vx.Reach("history/end")
}

// H_SharedPatch: one decoded Patch applied to D1, D2, D1 again equals applying a freshly decoded patch each time;
// the Patch's raw messages are not written; a result fed back as the next document is not written either.
func H_SharedPatch() {
	pB := hPatch("x.p.")
	d1, d2 := hDoc("x.d1."), hDoc("x.d2.")
	vx.Note("patch", pB)
	vx.Note("d1", d1)
	vx.Note("d2", d2)
	d1snap, d2snap, pBsnap := clone(d1), clone(d2), clone(pB)
	var o1, o2, o3, f1, f2, chained, chainIn, chainSnap []byte
	var e1, e2, e3, g1, g2 error
	rawOK := true
	panicked := vx.CatchPanic(func() {
		p, err := jsonpatch.DecodePatch(pB)
		if err != nil {
			return
		}
		type rawSnap struct {
			op  int
			key string
			b   []byte
		}
		var snaps []rawSnap
		nilBefore := map[string]bool{}
		members := 0
		for i, op := range p {
			for k, v := range op {
				members++
				nilBefore[itoa(i)+"/"+k] = v == nil
				if v != nil {
					snaps = append(snaps, rawSnap{i, k, clone(*v)})
				}
			}
		}
		o1, e1 = p.Apply(d1)
		o2, e2 = p.Apply(d2)
		o3, e3 = p.Apply(d1)
		for _, s := range snaps {
			if p[s.op][s.key] == nil {
				rawOK = false
				continue
			}
			rawOK = vx.And(rawOK, vx.EqBytes(s.b, *p[s.op][s.key]))
		}
		// the Patch value itself (a slice of maps): same members, and a member decoded from null (a nil message) stays nil
		after := 0
		for i, op := range p {
			for k, v := range op {
				after++
				if was, ok := nilBefore[itoa(i)+"/"+k]; !ok || was != (v == nil) {
					rawOK = false
				}
			}
		}
		if after != members {
			rawOK = false
		}
		q1, _ := jsonpatch.DecodePatch(pB)
		f1, g1 = q1.Apply(d1)
		q2, _ := jsonpatch.DecodePatch(pB)
		f2, g2 = q2.Apply(d2)
		// chain: the output of one call is the document of the next
		// a test whose pointer ends in an empty token compares the node that sits directly over the caller's buffer
		selfTest := append(append([]byte(`[{"op":"test","path":"/","value":`), d1...), `}]`...)
		if st, err := jsonpatch.DecodePatch(selfTest); err == nil {
			st.Apply(d1)
			st.Apply(d1)
		}
		rm, _ := jsonpatch.DecodePatch([]byte(`[{"op":"remove","path":"/a"}]`))
		chainIn = o1
		chainSnap = clone(o1)
		chained, _ = rm.Apply(chainIn)
	})
	vx.Assert(!panicked, "C04/shared-patch-no-panic")
	vx.Assert(!panicked, "C09/shared-patch-returns")
	if panicked {
		vx.Note("panic", []byte(vx.PanicMsg()))
		return
	}
	vx.Assert(e1 == nil && e2 == nil && e3 == nil && g1 == nil && g2 == nil, "C09/shared-patch-applies")
	if e1 != nil || e2 != nil || e3 != nil || g1 != nil || g2 != nil {
		return
	}
	vx.Assert(rawOK, "C09/patch-value-not-written")
	vx.Assert(vx.EqBytes(d1, d1snap) && vx.EqBytes(d2, d2snap) && vx.EqBytes(pB, pBsnap), "C09/document-and-patch-text-not-written")
	vx.Assert(vx.EqBytes(chainIn, chainSnap), "C09/document-argument-not-written")
	vx.Assert(vx.EqBytes(o1, chainSnap), "C09/earlier-result-not-overwritten-by-later-calls")
	vx.Assert(vx.EqBytes(o3, chainSnap), "C09/shared-patch-same-result-on-reuse")
	vx.Assert(vx.EqBytes(chainSnap, f1) && vx.EqBytes(o2, f2), "C09/shared-patch-equals-fresh-patch")
	vx.Assert(len(chained) > 0, "C09/chained-apply-succeeds")
	vx.Reach("shared/end")
}

// H_Repeat_Stable (C09): the same Apply repeated gives the same bytes - also for documents that spell a member
// name twice (valid JSON, unusual). Run with alternating map iteration order: any dependence of the output on Go's
// map order shows as a difference between the first and the second call.
func H_Repeat_Stable() {
	d := string([]byte{symDigit19("x.d")})
	docs := []string{
		`{"a":` + d + `,"b":2,"c":{"x":1,"y":2,"x":3},"a":7}`,
		`{"k":{"p":1,"q":2,"r":3},"l":[{"m":1,"n":2,"m":3}],"k2":` + d + `}`,
		`[{"z":1,"y":2,"x":3,"y":4},` + d + `]`,
	}
	doc := []byte(docs[vx.Choose("doc", len(docs))])
	patches := []string{`[]`, `[{"op":"add","path":"/c/z","value":1}]`, `[{"op":"add","path":"/k/s","value":[1]},{"op":"copy","from":"/k","path":"/k3"}]`, `[{"op":"add","path":"/0/w","value":null}]`}
	pB := []byte(patches[vx.Choose("patch", len(patches))])
	vx.Note("doc", doc)
	vx.Note("patch", pB)
	var o1, o2, m1, m2 []byte
	var e1, e2 error
	panicked := vx.CatchPanic(func() {
		p, err := jsonpatch.DecodePatch(pB)
		if err != nil {
			return
		}
		o1, e1 = p.Apply(doc)
		o2, e2 = p.Apply(doc)
		m1, _ = jsonpatch.CreateMergePatch([]byte(`{"a":1,"b":2,"c":3}`), []byte(`{"a":2,"b":3,"c":4,"d":`+d+`}`))
		m2, _ = jsonpatch.CreateMergePatch([]byte(`{"a":1,"b":2,"c":3}`), []byte(`{"a":2,"b":3,"c":4,"d":`+d+`}`))
	})
	vx.Assert(!panicked, "C04/repeat-no-panic")
	vx.Assert(!panicked, "C09/repeat-returns")
	if panicked {
		return
	}
	vx.Assert((e1 == nil) == (e2 == nil), "C09/repeat-same-success")
	vx.Assert(vx.EqBytes(o1, o2), "C09/repeat-same-bytes")
	vx.Assert(vx.EqBytes(m1, m2), "C09/repeat-createmergepatch-same-bytes")
	vx.Reach("repeat/end")
}
