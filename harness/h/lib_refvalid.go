package zzverif

// refValid: independent recursive-descent recogniser for RFC 8259 JSON texts
// (ws value ws), with a nesting limit of 10000.

const refMaxDepth = 10000

type rv struct {
	b []byte
	p int
}

func isWS(c byte) bool { return c == ' ' || c == '\t' || c == '\n' || c == '\r' }

func (r *rv) ws() {
	for r.p < len(r.b) && isWS(r.b[r.p]) {
		r.p++
	}
}

func refValid(b []byte) bool {
	r := &rv{b: b}
	r.ws()
	if !r.value(0) {
		return false
	}
	r.ws()
	return r.p == len(r.b)
}

func (r *rv) lit(s string) bool {
	if r.p+len(s) > len(r.b) {
		return false
	}
	for k := 0; k < len(s); k++ {
		if r.b[r.p+k] != s[k] {
			return false
		}
	}
	r.p += len(s)
	return true
}

func isDigit(c byte) bool { return c >= '0' && c <= '9' }
func isHex(c byte) bool {
	return c >= '0' && c <= '9' || c >= 'a' && c <= 'f' || c >= 'A' && c <= 'F'
}

func (r *rv) value(depth int) bool {
	if r.p >= len(r.b) {
		return false
	}
	c := r.b[r.p]
	switch {
	case c == '{':
		if depth+1 > refMaxDepth {
			return false
		}
		r.p++
		r.ws()
		if r.p < len(r.b) && r.b[r.p] == '}' {
			r.p++
			return true
		}
		for {
			r.ws()
			if !r.str() {
				return false
			}
			r.ws()
			if r.p >= len(r.b) || r.b[r.p] != ':' {
				return false
			}
			r.p++
			r.ws()
			if !r.value(depth + 1) {
				return false
			}
			r.ws()
			if r.p >= len(r.b) {
				return false
			}
			if r.b[r.p] == ',' {
				r.p++
				continue
			}
			if r.b[r.p] == '}' {
				r.p++
				return true
			}
			return false
		}
	case c == '[':
		if depth+1 > refMaxDepth {
			return false
		}
		r.p++
		r.ws()
		if r.p < len(r.b) && r.b[r.p] == ']' {
			r.p++
			return true
		}
		for {
			r.ws()
			if !r.value(depth + 1) {
				return false
			}
			r.ws()
			if r.p >= len(r.b) {
				return false
			}
			if r.b[r.p] == ',' {
				r.p++
				continue
			}
			if r.b[r.p] == ']' {
				r.p++
				return true
			}
			return false
		}
	case c == '"':
		return r.str()
	case c == 't':
		return r.lit("true")
	case c == 'f':
		return r.lit("false")
	case c == 'n':
		return r.lit("null")
	case c == '-' || isDigit(c):
		return r.num()
	}
	return false
}

func (r *rv) str() bool {
	if r.p >= len(r.b) || r.b[r.p] != '"' {
		return false
	}
	r.p++
	for r.p < len(r.b) {
		c := r.b[r.p]
		switch {
		case c == '"':
			r.p++
			return true
		case c < 0x20:
			return false
		case c == '\\':
			r.p++
			if r.p >= len(r.b) {
				return false
			}
			e := r.b[r.p]
			switch e {
			case '"', '\\', '/', 'b', 'f', 'n', 'r', 't':
				r.p++
			case 'u':
				r.p++
				for k := 0; k < 4; k++ {
					if r.p >= len(r.b) || !isHex(r.b[r.p]) {
						return false
					}
					r.p++
				}
			default:
				return false
			}
		default:
			r.p++
		}
	}
	return false
}

func (r *rv) num() bool {
	if r.p < len(r.b) && r.b[r.p] == '-' {
		r.p++
	}
	if r.p >= len(r.b) {
		return false
	}
	if r.b[r.p] == '0' {
		r.p++
	} else if r.b[r.p] >= '1' && r.b[r.p] <= '9' {
		for r.p < len(r.b) && isDigit(r.b[r.p]) {
			r.p++
		}
	} else {
		return false
	}
	if r.p < len(r.b) && r.b[r.p] == '.' {
		r.p++
		if r.p >= len(r.b) || !isDigit(r.b[r.p]) {
			return false
		}
		for r.p < len(r.b) && isDigit(r.b[r.p]) {
			r.p++
		}
	}
	if r.p < len(r.b) && (r.b[r.p] == 'e' || r.b[r.p] == 'E') {
		r.p++
		if r.p < len(r.b) && (r.b[r.p] == '+' || r.b[r.p] == '-') {
			r.p++
		}
		if r.p >= len(r.b) || !isDigit(r.b[r.p]) {
			return false
		}
		for r.p < len(r.b) && isDigit(r.b[r.p]) {
			r.p++
		}
	}
	return true
}
