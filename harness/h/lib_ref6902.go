package zzverif

// refApply6902: RFC 6902 / RFC 6901 evaluated on JV trees, with the library's
// documented dialect (DESIGN.md Appendix A). Written from the RFC texts,
// independent of the library's code.

const (
	OpAdd = iota
	OpRemove
	OpReplace
	OpMove
	OpCopy
	OpTest
)

var opNamesJP = []string{"add", "remove", "replace", "move", "copy", "test"}

// Tok is one reference token: Raw as spelled in the pointer, Name decoded (~1 -> /, ~0 -> ~).
type Tok struct {
	Raw  []byte
	Name []byte
}

type Ptr struct {
	Toks []Tok
}

type Op struct {
	Kind   int
	Path   Ptr
	From   Ptr
	Val    *JV
	HasVal bool
}

type RefOpts struct {
	NegIdx       bool
	AllowMissing bool
	Ensure       bool
	// EmptyTok: an empty reference token is the member name "" (RFC 6901) instead of "outside the domain"; used by
	// the C13 family for the LAST token of a remove only (C01 states empty tokens as outside; as ancestors and on arrays they stay outside)
	EmptyTok bool
}

const (
	eNone = iota
	eTestFailed
	eCopyLimit
	eMissing
	eOther
)

const (
	ixNum    = iota // canonical non-negative decimal
	ixDash          // "-"
	ixNeg           // canonical negative: -[1-9][0-9]*
	ixNonCan        // +1, 01, -0, -01 … (outside the stated domain)
	ixNaN           // not an index at all
	ixEmpty         // empty token (outside the stated domain)
)

// classifyIndex parses a token as an array index. The value may be symbolic.
func classifyIndex(name []byte) (kind int, val int) {
	n := len(name)
	if n == 0 {
		return ixEmpty, 0
	}
	if n == 1 && name[0] == '-' {
		return ixDash, 0
	}
	p := 0
	neg := false
	if name[0] == '-' {
		neg = true
		p = 1
	} else if name[0] == '+' {
		// "+d…" is accepted by strconv.Atoi but is not an RFC 6901 index
		for k := 1; k < n; k++ {
			if !isDigit(name[k]) {
				return ixNaN, 0
			}
		}
		if n == 1 {
			return ixNaN, 0
		}
		return ixNonCan, 0
	}
	if p >= n {
		return ixNaN, 0
	}
	for k := p; k < n; k++ {
		if !isDigit(name[k]) {
			return ixNaN, 0
		}
	}
	// digits only from p
	if name[p] == '0' && (n-p > 1 || neg) {
		return ixNonCan, 0 // 01, -0, -01
	}
	v := 0
	for k := p; k < n; k++ {
		v = v*10 + int(name[k]-'0')
	}
	if n-p > 18 {
		// beyond any array length (and possibly beyond int): no wrap-around in the reference
		v = 1 << 62
	}
	if neg {
		return ixNeg, -v
	}
	return ixNum, v
}

type refState struct {
	doc        *JV
	opts       RefOpts
	outside    bool
	negOff     bool // a remove used a negative index while negative indices are off (outside C13's domain)
	nanOnArray bool // a remove used a non-numeric last token on an array (outside C13's domain)
	nullSlack  int64
	idxOut     bool // the last error was an array index out of range (>= len, or < -len with negative indices on)
	negUsedOff bool // the last error was a negative index while negative indices are off
}

// step moves from container cur through one intermediate token; nil = unreachable.
func (s *refState) step(cur *JV, t Tok) *JV {
	if len(t.Raw) == 0 {
		s.outside = true
		return nil
	}
	var next *JV
	switch cur.K {
	case JObj:
		i := cur.find(t.Name)
		if i < 0 {
			return nil
		}
		next = cur.Kids[i]
	case JArr:
		kind, v := classifyIndex(t.Name)
		n := len(cur.Kids)
		switch kind {
		case ixNum:
			if v >= n {
				return nil
			}
			next = cur.Kids[v]
		case ixNeg:
			if !s.opts.NegIdx || v < -n {
				return nil
			}
			next = cur.Kids[n+v]
		case ixNonCan, ixEmpty:
			s.outside = true
			return nil
		default:
			return nil
		}
	default:
		return nil
	}
	if !next.isContainer() {
		return nil
	}
	return next
}

// parent resolves everything but the last token.
func (s *refState) parent(p Ptr) (*JV, Tok, bool) {
	cur := s.doc
	n := len(p.Toks)
	for k := 0; k < n-1; k++ {
		cur = s.step(cur, p.Toks[k])
		if cur == nil {
			return nil, Tok{}, false
		}
	}
	last := p.Toks[n-1]
	if len(last.Raw) == 0 && !(s.opts.EmptyTok && cur.K == JObj) {
		s.outside = true
		return nil, Tok{}, false
	}
	return cur, last, true
}

// get reads the value the last token addresses; absent object members return (nil, eMissing).
func (s *refState) get(con *JV, t Tok) (*JV, int) {
	switch con.K {
	case JObj:
		i := con.find(t.Name)
		if i < 0 {
			return nil, eMissing
		}
		return con.Kids[i], eNone
	case JArr:
		kind, v := classifyIndex(t.Name)
		n := len(con.Kids)
		switch kind {
		case ixNum:
			if v >= n {
				s.idxOut = true
				return nil, eOther
			}
			return con.Kids[v], eNone
		case ixNeg:
			if !s.opts.NegIdx || v < -n {
				s.idxOut = s.opts.NegIdx
				s.negUsedOff = !s.opts.NegIdx
				return nil, eOther
			}
			return con.Kids[n+v], eNone
		case ixNonCan, ixEmpty:
			s.outside = true
			return nil, eOther
		}
		return nil, eOther
	}
	return nil, eOther
}

func (s *refState) add(con *JV, t Tok, v *JV) int {
	switch con.K {
	case JObj:
		con.set(t.Name, v)
		return eNone
	case JArr:
		kind, i := classifyIndex(t.Name)
		n := len(con.Kids)
		switch kind {
		case ixDash:
			con.Kids = append(con.Kids, v)
			return eNone
		case ixNum:
			if i > n {
				s.idxOut = true
				return eOther
			}
			con.insElem(i, v)
			return eNone
		case ixNeg:
			// dialect: position counted in the resulting array (add …/-1 appends)
			if !s.opts.NegIdx || i < -(n+1) {
				s.idxOut = s.opts.NegIdx
				s.negUsedOff = !s.opts.NegIdx
				return eOther
			}
			con.insElem(n+1+i, v)
			return eNone
		case ixNonCan, ixEmpty:
			s.outside = true
			return eOther
		}
		return eOther
	}
	return eOther
}

// remove deletes the addressed location. skippable reports that the target is
// absent in the sense of AllowMissingPathOnRemove.
func (s *refState) remove(con *JV, t Tok) (err int, skippable bool) {
	switch con.K {
	case JObj:
		i := con.find(t.Name)
		if i < 0 {
			return eMissing, true
		}
		con.del(i)
		return eNone, false
	case JArr:
		kind, i := classifyIndex(t.Name)
		n := len(con.Kids)
		switch kind {
		case ixNum:
			if i >= n {
				s.idxOut = true
				return eOther, true
			}
			con.delElem(i)
			return eNone, false
		case ixNeg:
			if !s.opts.NegIdx {
				s.negOff = true
				s.negUsedOff = true
				return eOther, false
			}
			if i < -n {
				s.idxOut = true
				return eOther, true
			}
			con.delElem(n + i)
			return eNone, false
		case ixNonCan, ixEmpty:
			s.outside = true
			return eOther, false
		}
		s.nanOnArray = true
		return eOther, false
	}
	return eOther, false
}

func (s *refState) replace(con *JV, t Tok, v *JV) int {
	switch con.K {
	case JObj:
		i := con.find(t.Name)
		if i < 0 {
			return eMissing
		}
		con.Kids[i] = v
		return eNone
	case JArr:
		kind, i := classifyIndex(t.Name)
		n := len(con.Kids)
		switch kind {
		case ixNum:
			if i >= n {
				s.idxOut = true
				return eOther
			}
			con.Kids[i] = v
			return eNone
		case ixNeg:
			if !s.opts.NegIdx || i < -n {
				s.idxOut = s.opts.NegIdx
				s.negUsedOff = !s.opts.NegIdx
				return eOther
			}
			con.Kids[n+i] = v
			return eNone
		case ixNonCan, ixEmpty:
			s.outside = true
			return eOther
		}
		return eOther
	}
	return eOther
}

type RefResult struct {
	Doc                   *JV
	Err                   int
	FailedAt              int
	Outside               bool
	Skipped               []bool // per operation: a remove that AllowMissingPathOnRemove skipped
	NegOff                bool
	NaNOnArray            bool
	CopyFromRootAfterEdit bool // a copy from "" that follows an operation (known finding KF-copy-root)
	NullThenTest          bool // a test that reads a null stored by an earlier add/replace/copy/move (known finding KF-null-test)
	IdxOut                bool // the failing operation failed on an array index out of range
	NegUsedOff            bool // the failing operation used a negative index while negative indices are off
}

// refApply evaluates ops on a copy of doc. sizeOf (optional) measures a copied
// value for the accumulated-copy-size limit; limit <= 0 disables the check.
func refApply(doc *JV, ops []Op, opts RefOpts, limit int64, sizeOf func(*JV) int) RefResult {
	s := &refState{doc: doc.clone(), opts: opts}
	res := RefResult{FailedAt: -1, Skipped: make([]bool, len(ops))}
	var total int64
	for i, op := range ops {
		err := eNone
		s.idxOut = false
		s.negUsedOff = false
		switch op.Kind {
		case OpAdd:
			err = s.opAdd(op)
		case OpRemove:
			var skip bool
			err, skip = s.opRemove(op)
			if err != eNone && skip && opts.AllowMissing {
				err = eNone
				res.Skipped[i] = true
			}
		case OpReplace:
			err = s.opReplace(op)
		case OpMove:
			err = s.opMove(op)
		case OpCopy:
			if len(op.From.Toks) == 0 && i > 0 {
				res.CopyFromRootAfterEdit = true
			}
			err = s.opCopy(op, &total, limit, sizeOf)
		case OpTest:
			err = s.opTest(op)
		}
		if s.outside {
			res.Outside = true
			return res
		}
		if err != eNone {
			res.Err = err
			res.FailedAt = i
			res.IdxOut = s.idxOut && err == eOther
			res.NegUsedOff = s.negUsedOff && err == eOther
			res.NegOff, res.NaNOnArray = s.negOff, s.nanOnArray
			return res
		}
	}
	res.Doc = s.doc
	res.NegOff, res.NaNOnArray = s.negOff, s.nanOnArray
	return res
}

func (s *refState) opAdd(op Op) int {
	if len(op.Path.Toks) == 0 {
		if op.Val.K == JNull {
			s.outside = true // root replaced by null
			return eOther
		}
		if !op.Val.isContainer() {
			return eOther
		}
		s.doc = op.Val.clone()
		return eNone
	}
	if s.opts.Ensure {
		if e := s.ensure(op.Path); e != eNone {
			return e
		}
		if s.outside {
			return eOther
		}
	}
	con, last, ok := s.parent(op.Path)
	if !ok {
		return eMissing
	}
	return s.add(con, last, op.Val.clone())
}

func (s *refState) opRemove(op Op) (int, bool) {
	if len(op.Path.Toks) == 0 {
		s.outside = true
		return eOther, false
	}
	con, last, ok := s.parent(op.Path)
	if !ok {
		return eMissing, true
	}
	return s.remove(con, last)
}

func (s *refState) opReplace(op Op) int {
	if len(op.Path.Toks) == 0 {
		if op.Val.K == JNull {
			s.outside = true // root replaced by null
			return eOther
		}
		if !op.Val.isContainer() {
			return eOther
		}
		s.doc = op.Val.clone()
		return eNone
	}
	con, last, ok := s.parent(op.Path)
	if !ok {
		return eMissing
	}
	return s.replace(con, last, op.Val.clone())
}

func (s *refState) opMove(op Op) int {
	if len(op.From.Toks) == 0 {
		return eOther
	}
	if len(op.Path.Toks) == 0 {
		s.outside = true
		return eOther
	}
	con, last, ok := s.parent(op.From)
	if !ok {
		return eMissing
	}
	v, e := s.get(con, last)
	if e != eNone {
		return e
	}
	if e, _ := s.remove(con, last); e != eNone {
		return e
	}
	con, last, ok = s.parent(op.Path)
	if !ok {
		return eMissing
	}
	return s.add(con, last, v)
}

func (s *refState) opCopy(op Op, total *int64, limit int64, sizeOf func(*JV) int) int {
	if len(op.Path.Toks) == 0 {
		s.outside = true
		return eOther
	}
	var v *JV
	if len(op.From.Toks) == 0 {
		v = s.doc
	} else {
		con, last, ok := s.parent(op.From)
		if !ok {
			return eMissing
		}
		var e int
		v, e = s.get(con, last)
		if e != eNone {
			return e
		}
	}
	v = v.clone()
	con, last, ok := s.parent(op.Path)
	if !ok {
		return eMissing
	}
	if sizeOf != nil {
		// a copied null may be counted as 0 or as 4 bytes: total is the lower bound, s.nullSlack the allowance
		if v.K == JNull {
			s.nullSlack += 4
		} else {
			*total += int64(sizeOf(v))
		}
		if limit > 0 {
			if *total > limit {
				return eCopyLimit
			}
			if *total+s.nullSlack > limit {
				s.outside = true // either outcome is acceptable
				return eOther
			}
		}
	}
	return s.add(con, last, v)
}

func (s *refState) opTest(op Op) int {
	want := op.Val
	if !op.HasVal {
		want = jNull()
	}
	var got *JV
	if len(op.Path.Toks) == 0 {
		got = s.doc
	} else {
		con, last, ok := s.parent(op.Path)
		if !ok {
			return eMissing
		}
		var e int
		got, e = s.get(con, last)
		if e == eMissing {
			got = jNull() // dialect: an absent object member compares as null
		} else if e != eNone {
			return e
		}
	}
	if refEqual(got, want) {
		return eNone
	}
	return eTestFailed
}

// ensure implements EnsurePathExistsOnAdd for the reference: create missing
// parents (array when the next token is a canonical index or "-", object
// otherwise), padding arrays with null up to the addressed index.
func (s *refState) ensure(p Ptr) int {
	cur := s.doc
	n := len(p.Toks)
	for k := 0; k < n-1; k++ {
		t := p.Toks[k]
		nt := p.Toks[k+1]
		if len(t.Raw) == 0 || len(nt.Raw) == 0 {
			s.outside = true
			return eOther
		}
		mk := func() *JV {
			kind, v := classifyIndex(nt.Name)
			switch kind {
			case ixNum:
				a := &JV{K: JArr, Kids: []*JV{}}
				for len(a.Kids) < v {
					a.Kids = append(a.Kids, jNull())
				}
				return a
			case ixDash:
				if k+1 != n-1 {
					s.outside = true // '-' only as last token
					return nil
				}
				return &JV{K: JArr, Kids: []*JV{}}
			case ixNeg, ixNonCan, ixEmpty:
				s.outside = true
				return nil
			}
			return jObj()
		}
		switch cur.K {
		case JObj:
			i := cur.find(t.Name)
			if i >= 0 {
				v := cur.Kids[i]
				if !v.isContainer() {
					s.outside = true // null or scalar on the path
					return eOther
				}
				cur = v
				continue
			}
			c := mk()
			if c == nil {
				return eOther
			}
			cur.set(t.Name, c)
			cur = c
		case JArr:
			kind, i := classifyIndex(t.Name)
			if kind != ixNum {
				s.outside = true
				return eOther
			}
			if i < len(cur.Kids) {
				v := cur.Kids[i]
				if !v.isContainer() {
					s.outside = true
					return eOther
				}
				cur = v
				continue
			}
			for len(cur.Kids) < i {
				cur.Kids = append(cur.Kids, jNull())
			}
			c := mk()
			if c == nil {
				return eOther
			}
			cur.Kids = append(cur.Kids, c)
			cur = c
		}
	}
	return eNone
}
