package zzverif

import (
	"github.com/evanphx/json-patch/v5/zzverif/vx"
)

// atom appends one element of the escape alphabet to (value, spelling).
const nAtoms = 20

func atom(name string, kind int, val, sp []byte) ([]byte, []byte) {
	switch kind {
	case 0: // any printable ASCII byte except quote and backslash (covers <, >, &)
		b := symPlain(name)
		return append(val, b), append(sp, b)
	case 1:
		return append(val, '"'), append(sp, '\\', '"')
	case 2:
		return append(val, '\\'), append(sp, '\\', '\\')
	case 3:
		return append(val, 0x1f), append(sp, `\u001f`...)
	case 4: // raw U+2028
		return append(val, 0xE2, 0x80, 0xA8), append(sp, 0xE2, 0x80, 0xA8)
	case 5: // raw U+2029
		return append(val, 0xE2, 0x80, 0xA9), append(sp, 0xE2, 0x80, 0xA9)
	case 6: // U+2028 spelled as the encoder spells it (backslash u 2 0 2 8)
		return append(val, 0xE2, 0x80, 0xA8), append(sp, '\\', 'u', '2', '0', '2', '8')
	case 7: // non-BMP, raw
		return append(val, 0xF0, 0x9F, 0x98, 0x80), append(sp, 0xF0, 0x9F, 0x98, 0x80)
	case 8: // lone surrogate escape (decodes to U+FFFD)
		return append(val, 0xEF, 0xBF, 0xBD), append(sp, `\ud83d`...)
	case 9:
		return append(val, '\n'), append(sp, '\\', 'n')
	case 10: // < spelled as the encoder spells it with EscapeHTML on (backslash u 0 0 3 c)
		return append(val, '<'), append(sp, '\\', 'u', '0', '0', '3', 'c')
	case 11:
		return append(val, '\f'), append(sp, '\\', 'f')
	case 12:
		return append(val, '\b'), append(sp, '\\', 'b')
	case 13:
		return append(val, '\t'), append(sp, '\\', 't')
	case 14:
		return append(val, '\r'), append(sp, '\\', 'r')
	case 15:
		return append(val, '/'), append(sp, '\\', '/')
	case 16: // surrogate pair spelled as two escapes (U+1F600)
		return append(val, 0xF0, 0x9F, 0x98, 0x80), append(sp, '\\', 'u', 'd', '8', '3', 'd', '\\', 'u', 'D', 'E', '0', '0')
	case 17: // BMP non-ASCII character spelled as an escape with upper-case hex (U+00E9)
		return append(val, 0xC3, 0xA9), append(sp, '\\', 'u', '0', '0', 'E', '9')
	case 18:
		// a backslash-u escape at a boundary of the encoding: first/last code point of each UTF-8 length and both
		// neighbours of the surrogate range
		cps := []int{0x7f, 0x80, 0x7ff, 0x800, 0xd7ff, 0xe000, 0xfffd, 0xffff}
		cp := cps[vx.Choose(name+".cp", len(cps))]
		hex := "0123456789abcdef"
		sp = append(sp, '\\', 'u', hex[cp>>12&15], hex[cp>>8&15], hex[cp>>4&15], hex[cp&15])
		return appendUTF8(val, cp), sp
	case 19:
		// an escaped surrogate pair at the corners of the pair space: U+10000 (D800 DC00) and U+10FFFF (DBFF DFFF)
		hex := "0123456789abcdef"
		pairs := [][3]int{{0xd800, 0xdc00, 0x10000}, {0xdbff, 0xdfff, 0x10ffff}}
		pr := pairs[vx.Choose(name+".pair", len(pairs))]
		for _, u := range pr[:2] {
			sp = append(sp, '\\', 'u', hex[u>>12&15], hex[u>>8&15], hex[u>>4&15], hex[u&15])
		}
		return appendUTF8(val, pr[2]), sp
	}
	panic("atom")
}

// escString: a string of `natoms` atoms chosen by mask.
func escString(name string, natoms, mask int) (val, sp []byte) {
	val, sp = []byte{}, []byte{}
	for i := 0; i < natoms; i++ {
		val, sp = atom(name+"."+itoa(i), chooseMask(name+".atom"+itoa(i), mask, nAtoms), val, sp)
	}
	return
}

// escMaskDefault: the atoms used where a family only needs "a string the codec must treat specially":
// a symbolic plain byte, a raw U+2028, and the short escapes for form feed and backspace.
const escMaskDefault = 1 | 1<<4 | 1<<11 | 1<<12

// symEscStr: a one-atom string from the escape alphabet (mask from parameter "escmask").
func symEscStr(name string) *JV {
	v, sp := escString(name, 1, vx.ParamOr("escmask", escMaskDefault))
	return jStrSp(v, sp)
}

// symEscName: a one-atom member name from the escape alphabet (value, spelling).
func symEscName(name string) ([]byte, []byte) {
	return escString(name, 1, vx.ParamOr("escmask", escMaskDefault))
}
