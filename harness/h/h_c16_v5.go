package zzverif

import (
	json "github.com/evanphx/json-patch/v5/internal/json"
	"github.com/evanphx/json-patch/v5/zzverif/vx"
)

// H_C16_Valid: json.Valid agrees with the reference recogniser on every byte string of length n.
func H_C16_Valid() {
	n := vx.Param("n")
	data := vx.Bytes("data", n)
	vx.Note("data", data)
	got := json.Valid(data)
	want := refValid(data)
	vx.Assert(got == want, "C16/valid-eq-ref")
	if got {
		vx.Reach("C16/valid/accept")
	} else {
		vx.Reach("C16/valid/reject")
	}
}
