package zzverif

import (
	"bytes"

	jsonpatch "github.com/evanphx/json-patch/v5"
	json "github.com/evanphx/json-patch/v5/internal/json"
	"github.com/evanphx/json-patch/v5/zzverif/vx"
)

// H_C16_Valid: json.Valid agrees with the reference recogniser on every byte string of length n.
func H_C16_Valid() {
	n := vx.Param("n")
	data := vx.Bytes("data", n)
	vx.Note("data", data)
	got := json.Valid(data)
	want := refValid(data)
	vx.Assert(got == want, "C16/valid-eq-ref")
	if got {
		vx.Reach("C16/valid/accept")
	} else {
		vx.Reach("C16/valid/reject")
	}
}

// codecAccepts runs Compact, Indent and Unmarshal on data and reports their verdicts.
func codecAccepts(data []byte, id string) (panicked bool) {
	want := refValid(data)
	var cOK, iOK, uOK bool
	panicked = vx.CatchPanic(func() {
		var b1, b2, b3 bytes.Buffer
		cOK = json.Compact(&b1, data) == nil
		iOK = json.Indent(&b2, data, "", " ") == nil
		var v interface{}
		uOK = json.Unmarshal(data, &v) == nil
		json.HTMLEscape(&b3, data)
	})
	vx.Assert(!panicked, "C16/"+id+"-codec-no-panic")
	if panicked {
		vx.Note("panic", []byte(vx.PanicMsg()))
		return
	}
	vx.Assert(cOK == want, "C16/"+id+"-compact-accepts-iff-wellformed")
	vx.Assert(iOK == want, "C16/"+id+"-indent-accepts-iff-wellformed")
	vx.Assert(uOK == want, "C16/"+id+"-unmarshal-accepts-iff-wellformed")
	if want {
		vx.Reach("C16/codec/accept")
	} else {
		vx.Reach("C16/codec/reject")
	}
	return
}

// H_C16_Codec: Compact, Indent, Unmarshal accept exactly the well-formed texts among all byte strings of length n.
func H_C16_Codec() {
	data := vx.Bytes("data", vx.Param("n"))
	vx.Note("data", data)
	codecAccepts(data, "bytes")
}

var c16Templates = []string{
	`{"a":1,"b":[true,null],"c":"x"}`,
	`[1,-0.5e+3,"é\n",{"k":{}}]`,
	`{"":0}`,
	`[[],[[]],{"a":[{}]}]`,
	` "s" `,
	`-12.0E-1`,
	`{"a":"😀","b":false}`,
	`[{"k" : {"n" :[1 ,2]}}]`,
	// backslash-u escapes (value, surrogate pair, member name) and short escapes: every hex-digit position can be overwritten
	"[\"\\" + "u00e9\\" + "uD83D\\" + "uDE00\",{\"\\" + "u0041\":\"\\\\\\/\\b\"}]",
}

// H_C16_Template: a well-formed template with k unconstrained bytes inserted at (mode 0) or overwriting from
// (mode 1) any position: Valid, Compact, Indent, Unmarshal must agree with the reference recogniser.
// Reaches strings far longer than the fully symbolic bound (trailing commas, truncations, bad escapes, stray bytes).
func H_C16_Template() {
	t := []byte(c16Templates[vx.Choose("template", vx.Param("ntemplates"))])
	k := vx.Param("k")
	mode := vx.Choose("mode", 2)
	var data []byte
	if mode == 0 {
		pos := vx.Choose("pos", len(t)+1)
		data = append(data, t[:pos]...)
		data = append(data, vx.Bytes("x", k)...)
		data = append(data, t[pos:]...)
	} else {
		if len(t) < k {
			return
		}
		pos := vx.Choose("pos", len(t)-k+1)
		data = append(data, t[:pos]...)
		data = append(data, vx.Bytes("x", k)...)
		data = append(data, t[pos+k:]...)
	}
	vx.Note("data", data)
	got := json.Valid(data)
	vx.Assert(got == refValid(data), "C16/template-valid-eq-ref")
	codecAccepts(data, "template")
	vx.Reach("C16/template/end")
}

// H_C16_Gates: every public entry point, one argument = a well-formed template with one unconstrained byte
// prepended and one appended: accepted exactly when the reference recogniser accepts the text.
func H_C16_Gates() {
	pre, post := vx.Byte("pre"), vx.Byte("post")
	wrap := func(t string) []byte {
		return append(append([]byte{pre}, t...), post)
	}
	var acc, want bool
	var text []byte
	fn := vx.Choose("fn", 8)
	panicked := vx.CatchPanic(func() {
		switch fn {
		case 0: // Apply: document object
			text = wrap(`{"a":1}`)
			p, _ := jsonpatch.DecodePatch([]byte(`[{"op":"add","path":"/b","value":2}]`))
			_, err := p.Apply(text)
			acc = err == nil
		case 1: // Apply: document array
			text = wrap(`[1]`)
			p, _ := jsonpatch.DecodePatch([]byte(`[{"op":"add","path":"/-","value":2}]`))
			_, err := p.Apply(text)
			acc = err == nil
		case 2: // DecodePatch
			text = wrap(`[{"op":"remove","path":"/a"}]`)
			_, err := jsonpatch.DecodePatch(text)
			acc = err == nil
		case 3: // MergePatch: document
			text = wrap(`{"a":1}`)
			_, err := jsonpatch.MergePatch(text, []byte(`{"b":2}`))
			acc = err == nil
		case 4: // MergePatch: patch
			text = wrap(`{"b":null}`)
			_, err := jsonpatch.MergePatch([]byte(`{"a":1,"b":2}`), text)
			acc = err == nil
		case 5: // MergeMergePatches
			text = wrap(`{"b":null}`)
			_, err := jsonpatch.MergeMergePatches([]byte(`{"a":1}`), text)
			acc = err == nil
		case 6: // CreateMergePatch
			text = wrap(`{"a":{"b":1}}`)
			_, err := jsonpatch.CreateMergePatch([]byte(`{"a":{"b":2}}`), text)
			acc = err == nil
		case 7: // Equal
			text = wrap(`{"a":[1,"x"]}`)
			acc = jsonpatch.Equal(text, []byte(`{"a":[1,"x"]}`))
		}
	})
	vx.Note("text", text)
	vx.Assert(!panicked, "C04/gates-no-panic")
	vx.Assert(!panicked, "C16/gates-return")
	if panicked {
		vx.Note("panic", []byte(vx.PanicMsg()))
		return
	}
	want = refValid(text)
	if isWS(pre) && isWS(post) {
		vx.Assert(acc, "C16/entry-point-accepts-surrounding-whitespace")
		vx.Reach("C16/gates/accept")
	} else if !want {
		vx.Assert(!acc, "C16/entry-point-rejects-malformed")
		vx.Reach("C16/gates/reject")
	} else {
		// still well-formed but of another shape ([...] or "..." around the template): not compared
		vx.Reach("C16/gates/other-shape")
	}
}
