package zzverif

import (
	jsonpatch "github.com/evanphx/json-patch/v5"
	"github.com/evanphx/json-patch/v5/zzverif/vx"
)

// H_TestOp: the test operation as a relation between two values. The target X and the operand Y are drawn from
// the Equal shapes (symbolic member names over a..d, symbolic leaves; objects with null members, same member
// count under different names, nested containers); the target sits at the root (path ""), under a member or
// at an array element. Compared with refApply6902 through checkApply, so every C01/C05/C08/C15 assertion of
// the H_Apply family applies (success iff RFC 6902 section 4.6 equality, document unchanged, ErrTestFailed).
func H_TestOp() {
	nsh := vx.ParamOr("shapes", nEqShapes)
	X := eqShape(vx.Choose("sx", nsh), "x.")
	vx.Assume(!X.hasDupKeys())
	Y := eqShape(vx.Choose("sy", nsh), "y.")
	vx.Assume(!Y.hasDupKeys())
	var doc *JV
	var ptr Ptr
	switch vx.Choose("where", 3) {
	case 0:
		doc = X
		if !X.isContainer() {
			// a scalar or null root is outside C01's domain: only "returns, never panics" (C04) is demanded
			docB := render(X)
			patchB := renderPatch([]Op{{Kind: OpTest, Path: ptr, Val: Y, HasVal: true}})
			vx.Note("doc", docB)
			vx.Note("patch", patchB)
			panicked := vx.CatchPanic(func() {
				if p, err := jsonpatch.DecodePatch(patchB); err == nil {
					p.Apply(docB)
				}
			})
			vx.Assert(!panicked, "C04/apply-no-panic")
			if panicked {
				vx.Note("panic", []byte(vx.PanicMsg()))
			}
			vx.Reach("testop/scalar-root")
			return
		}
	case 1:
		doc = jObj().with("t", X).with("z", symNum("d.z"))
		ptr = Ptr{Toks: []Tok{{Raw: []byte("t"), Name: []byte("t")}}}
	case 2:
		doc = jArr(symNum("d.z"), X)
		ptr = Ptr{Toks: []Tok{{Raw: []byte("1"), Name: []byte("1")}}}
	}
	ops := []Op{{Kind: OpTest, Path: ptr, Val: Y, HasVal: true}}
	if vx.ParamOr("then", 0) == 1 {
		// a second operation after the test: it takes effect only when the test passed
		ops = append(ops, Op{Kind: OpAdd, Path: Ptr{Toks: []Tok{{Raw: []byte("-"), Name: []byte("-")}}}, Val: jBool(true), HasVal: true})
	}
	checkApplyOpts(doc, ops, vx.ParamOr("optmask", 0))
}
