package zzverif

import (
	jsonpatch "github.com/evanphx/json-patch/v5"
	"github.com/evanphx/json-patch/v5/zzverif/vx"
)

func symOptions() *jsonpatch.ApplyOptions {
	o := jsonpatch.NewApplyOptions()
	o.SupportNegativeIndices = vx.Bool("opt.neg")
	o.AccumulatedCopySizeLimit = vx.Int64("opt.limit")
	o.AllowMissingPathOnRemove = vx.Bool("opt.allowmissing")
	o.EnsurePathExistsOnAdd = vx.Bool("opt.ensure")
	o.EscapeHTML = vx.Bool("opt.escape")
	return o
}

// H_Bytes_ApplyOpts: ApplyWithOptions / ApplyIndentWithOptions with n unconstrained document bytes,
// a companion patch and all five options symbolic.
func H_Bytes_ApplyOpts() {
	n := vx.Param("n")
	s := vx.Bytes("s", n)
	pt := []byte(companionPatches[vx.Choose("patch", len(companionPatches))])
	vx.Note("doc", s)
	vx.Note("patch", pt)
	o := symOptions()
	var out []byte
	var err error
	panicked := vx.CatchPanic(func() {
		p, derr := jsonpatch.DecodePatch(pt)
		if derr != nil {
			return
		}
		out, err = p.ApplyIndentWithOptions(s, "  ", o)
	})
	vx.Assert(!panicked, "C04/apply-options-any-doc-bytes-no-panic")
	if panicked {
		vx.Note("panic", []byte(vx.PanicMsg()))
		vx.Reach("bytes/applyopts/panicked")
		return
	}
	if err == nil && n > 0 {
		vx.Assert(refValid(out), "C15/applyindent-output-wellformed")
	}
	vx.Reach("bytes/applyopts/end")
}
