package zzverif

// C15: outputs are well-formed UTF-8 JSON that reads back as the intended value; EscapeHTML only changes the
// spelling of <, >, &, U+2028, U+2029; ApplyIndent = Apply re-indented; passing test operations are byte-neutral.

import (
	jsonpatch "github.com/evanphx/json-patch/v5"
	"github.com/evanphx/json-patch/v5/zzverif/vx"
)

const nEscShapes = 4

// escDoc: documents carrying escape-alphabet strings as values and as member names.
func escDoc(i int, natoms, mask int) *JV {
	v1, s1 := escString("e.s1", natoms, mask)
	switch i {
	case 0: // string value at top level and inside an object
		v2, s2 := escString("e.s2", 1, mask&(1|1<<4|1<<10)|1) // the second string only needs a few kinds
		return jObj().with("a", jStrSp(v1, s1)).with("o", jObj().with("s", jStrSp(v2, s2)).with("n", symNum("e.n0")))
	case 1: // escape-alphabet member name (top level and nested)
		o := jObj()
		o.Keys = append(o.Keys, v1)
		o.KSp = append(o.KSp, s1)
		o.Kids = append(o.Kids, symNum("e.n0"))
		in := jObj()
		in.Keys = append(in.Keys, v1)
		in.KSp = append(in.KSp, s1)
		in.Kids = append(in.Kids, symNum("e.n1"))
		o.Keys = append(o.Keys, []byte("o"))
		o.KSp = append(o.KSp, nil)
		o.Kids = append(o.Kids, in)
		return o
	case 2: // inside arrays
		return jArr(jStrSp(v1, s1), jArr(jStrSp(v1, s1)), symNum("e.n0"))
	case 3: // object holding the string, next to an array
		return jObj().with("a", jObj().with("s", jStrSp(v1, s1))).with("b", jArr(symNum("e.n0")))
	}
	panic("escDoc")
}

// noRawHTML: none of <, >, & and no raw U+2028/U+2029 anywhere in out (one boolean term).
func noRawHTML(out []byte) bool {
	ok := true
	for i, c := range out {
		ok = vx.And(ok, vx.Not(vx.Or(vx.Or(c == '<', c == '>'), c == '&')))
		if i+2 < len(out) {
			ok = vx.And(ok, vx.Not(vx.And(vx.And(c == 0xE2, out[i+1] == 0x80), vx.Or(out[i+2] == 0xA8, out[i+2] == 0xA9))))
		}
	}
	return ok
}

// countHTMLEscapes counts < > &     (hex digits in either case) in b.
func countHTMLEscapes(b []byte) int {
	n := 0
	lower := func(c byte) byte { return c | 0x20 }
	for i := 0; i+5 < len(b); i++ {
		if b[i] != '\\' || b[i+1] != 'u' {
			continue
		}
		if i > 0 && b[i-1] == '\\' {
			// an escaped backslash followed by u: not an escape (the generators never produce \\\u…)
			continue
		}
		h := [4]byte{b[i+2], b[i+3], lower(b[i+4]), lower(b[i+5])}
		is := func(s string) bool { return h[0] == s[0] && h[1] == s[1] && h[2] == s[2] && h[3] == s[3] }
		if is("003c") || is("003e") || is("0026") || is("2028") || is("2029") {
			n++
		}
	}
	return n
}

// refIndent: independent re-indentation of a compact well-formed JSON text (the format of encoding/json.Indent with an empty prefix).
func refIndent(src []byte, indent []byte) []byte {
	var out []byte
	depth := 0
	nl := func() {
		out = append(out, '\n')
		for k := 0; k < depth; k++ {
			out = append(out, indent...)
		}
	}
	for i := 0; i < len(src); i++ {
		c := src[i]
		switch c {
		case '"':
			j := i + 1
			for j < len(src) && src[j] != '"' {
				if src[j] == '\\' {
					j++
				}
				j++
			}
			out = append(out, src[i:j+1]...)
			i = j
		case '{', '[':
			out = append(out, c)
			if i+1 < len(src) && (src[i+1] == '}' || src[i+1] == ']') {
				out = append(out, src[i+1])
				i++
				continue
			}
			depth++
			nl()
		case '}', ']':
			depth--
			nl()
			out = append(out, c)
		case ',':
			out = append(out, c)
			nl()
		case ':':
			out = append(out, ':', ' ')
		default:
			out = append(out, c)
		}
	}
	return out
}

// H_Escape: one operation (or none) on escape-alphabet documents, EscapeHTML on/off.
func H_Escape() {
	natoms := vx.Param("natoms")
	mask := vx.Param("atommask")
	doc := escDoc(vx.Choose("shape", nEscShapes), natoms, mask)
	vx.Assume(!doc.hasDupKeys())
	escape := vx.Choose("opt.escape", 2) == 1
	// operations that leave the string alone, duplicate it (copy re-encodes), move it, or test it
	var ops []Op
	tok := func(s string) Tok { return Tok{Raw: []byte(s), Name: []byte(s)} }
	first := "a"
	if doc.K == JArr {
		first = "0"
	}
	switch vx.Choose("opkind", 6) {
	case 0:
		// the empty patch
	case 1:
		ops = []Op{{Kind: OpAdd, Path: Ptr{Toks: []Tok{tok("z")}}, Val: symNum("op.n"), HasVal: true}}
		if doc.K == JArr {
			ops[0].Path = Ptr{Toks: []Tok{tok("-")}}
		}
	case 2:
		ops = []Op{{Kind: OpCopy, From: Ptr{Toks: []Tok{tok(first)}}, Path: Ptr{Toks: []Tok{tok("z")}}}}
		if doc.K == JArr {
			ops[0].Path = Ptr{Toks: []Tok{tok("-")}}
		}
	case 3:
		ops = []Op{{Kind: OpMove, From: Ptr{Toks: []Tok{tok(first)}}, Path: Ptr{Toks: []Tok{tok("z")}}}}
		if doc.K == JArr {
			ops[0].Path = Ptr{Toks: []Tok{tok("-")}}
		}
	case 4:
		// add a value that itself carries an escape-alphabet string
		v, s := escString("op.s", 1, mask)
		ops = []Op{{Kind: OpAdd, Path: Ptr{Toks: []Tok{tok("z")}}, Val: jObj().with("v", jStrSp(v, s)), HasVal: true}}
		if doc.K == JArr {
			ops[0].Path = Ptr{Toks: []Tok{tok("-")}}
		}
	case 5:
		// copy of the whole document into itself
		ops = []Op{{Kind: OpCopy, From: Ptr{}, Path: Ptr{Toks: []Tok{tok("z")}}}}
		if doc.K == JArr {
			ops[0].Path = Ptr{Toks: []Tok{tok("-")}}
		}
	}
	docB := render(doc)
	patchB := renderPatch(ops)
	vx.Note("doc", docB)
	vx.Note("patch", patchB)
	o := jsonpatch.NewApplyOptions()
	o.EscapeHTML = escape
	r := runApply(docB, patchB, o)
	vx.Assert(!r.panicked, "C04/apply-no-panic")
	if r.panicked || r.decErr != nil {
		return
	}
	ref := refApply(doc, ops, RefOpts{}, 0, nil)
	if ref.Outside || ref.Err != eNone {
		return
	}
	vx.Assert(r.err == nil, "C15/escape-family-applies")
	if r.err != nil {
		return
	}
	out := r.out
	vx.Assert(refValid(out), "C15/output-wellformed")
	vx.Assert(validUTF8(out), "C15/output-valid-utf8")
	got, ok := parseJSON(out)
	vx.Assert(ok, "C15/output-parses")
	if !ok {
		return
	}
	vx.Assert(refEqualOrdered(got, ref.Doc), "C15/reads-back-as-intended-value")
	vx.Assert(refEqualOrdered(got, ref.Doc), "C05/strings-keep-their-value")
	vx.Assert(refEqualOrdered(got, ref.Doc), "C01/result-equals-rfc")
	if escape {
		vx.Assert(noRawHTML(out), "C15/escape-on-no-raw-html-characters")
		vx.Reach("escape/on")
	} else {
		// member names containing raw U+2028/9 are re-spelled by the encoder regardless (appendix A narrowing)
		rawSepInName := false
		var walk func(x *JV)
		walk = func(x *JV) {
			for i, k := range x.Keys {
				if x.KSp != nil && x.KSp[i] != nil && len(k) >= 3 {
					sp := x.KSp[i]
					for j := 0; j+2 < len(sp); j++ {
						if sp[j] == 0xE2 && sp[j+1] == 0x80 && (sp[j+2] == 0xA8 || sp[j+2] == 0xA9) {
							rawSepInName = true
						}
					}
				}
			}
			for _, k := range x.Kids {
				walk(k)
			}
		}
		walk(doc)
		if !rawSepInName {
			vx.Assert(countHTMLEscapes(out) <= countHTMLEscapes(docB)*2+countHTMLEscapes(patchB), "C15/escape-off-introduces-no-escapes")
		}
		vx.Reach("escape/off")
	}
	// indentation
	ind := []byte{' ', '\t'}[:1+vx.Choose("indentlen", 2)]
	if vx.Choose("indentswap", 2) == 1 {
		ind[0] = '\t'
	}
	var iout []byte
	var ierr error
	panicked := vx.CatchPanic(func() {
		p, _ := jsonpatch.DecodePatch(patchB)
		iout, ierr = p.ApplyIndentWithOptions(docB, string(ind), o)
	})
	vx.Assert(!panicked && ierr == nil, "C15/applyindent-succeeds")
	if !panicked && ierr == nil {
		vx.Assert(vx.EqBytes(iout, refIndent(out, ind)), "C15/applyindent-is-apply-reindented")
	}
	vx.Reach("escape/end")
}

// lookupPtr returns the value a pointer addresses in doc (nil when it does not resolve); member names only or canonical indices.
func lookupPtr(doc *JV, p Ptr) *JV {
	s := &refState{doc: doc}
	if len(p.Toks) == 0 {
		return doc
	}
	con, last, ok := s.parent(p)
	if !ok || s.outside {
		return nil
	}
	v, e := s.get(con, last)
	if e != eNone || s.outside {
		return nil
	}
	return v
}

// encSpell: how the encoder spells a string value (short escapes, lower-case \u00XX for other control bytes, U+2028/9
// always escaped, <, >, & escaped when escapeHTML is on, everything else raw).
func encSpell(val []byte, escape bool) []byte {
	hex := "0123456789abcdef"
	var out []byte
	for i := 0; i < len(val); i++ {
		c := val[i]
		switch {
		case c == '"':
			out = append(out, '\\', '"')
		case c == '\\':
			out = append(out, '\\', '\\')
		case c == '\n':
			out = append(out, '\\', 'n')
		case c == '\r':
			out = append(out, '\\', 'r')
		case c == '\t':
			out = append(out, '\\', 't')
		case c < 0x20:
			out = append(out, '\\', 'u', '0', '0', hex[c>>4], hex[c&15])
		case escape && (c == '<' || c == '>' || c == '&'):
			out = append(out, '\\', 'u', '0', '0', hex[c>>4], hex[c&15])
		case c == 0xE2 && i+2 < len(val) && val[i+1] == 0x80 && (val[i+2] == 0xA8 || val[i+2] == 0xA9):
			out = append(out, '\\', 'u', '2', '0', '2', hex[val[i+2]&15])
			i += 2
		default:
			out = append(out, c)
		}
	}
	return out
}

// encoderSpelled: every string and member name of v is spelled in the text exactly as the encoder would spell it under
// the given option - the documents over which the property's byte-identity clauses quantify.
func encoderSpelled(v *JV, escape bool) bool {
	same := func(val, sp []byte) bool {
		if sp == nil {
			sp = val
		}
		want := encSpell(val, escape)
		if len(want) != len(sp) {
			return false
		}
		for i := range want {
			if want[i] != sp[i] {
				return false
			}
		}
		return true
	}
	if v.K == JStr && !same(v.Lit, v.Sp) {
		return false
	}
	for i, k := range v.Keys {
		var sp []byte
		if v.KSp != nil {
			sp = v.KSp[i]
		}
		if !same(k, sp) {
			return false
		}
	}
	for _, k := range v.Kids {
		if !encoderSpelled(k, escape) {
			return false
		}
	}
	return true
}

// H_TestNeutral (C15): a patch plus PASSING test operations yields the same bytes as the patch without them.
func H_TestNeutral() {
	var doc *JV
	if vx.Param("escdocs") == 1 {
		doc = escDoc(vx.Choose("shape", nEscShapes), 1, vx.Param("atommask"))
		vx.Assume(!doc.hasDupKeys())
	} else {
		doc = docShape(chooseMask("shape", vx.Param("shapemask"), nDocShapes), "d.")
	}
	escape := vx.Choose("opt.escape", 2) == 1
	if vx.Param("escdocs") == 1 && !encoderSpelled(doc, escape) {
		// the byte-identity clause quantifies over documents spelled as the encoder itself spells them (under this
		// option): a test that has to walk INTO a container parses it, and its names are then written the encoder's way
		vx.Reach("testneutral/not-encoder-spelled")
		return
	}
	op := genOp("op0", vx.Param("kmask0"), 0, vx.Param("maxtok"), vx.Param("tokmask"), vx.Param("nvals"))
	tp := genPtr("t.path", 0, vx.Param("maxtok"), vx.Param("tokmask"))
	before := vx.Choose("t.before", 2) == 1
	o := jsonpatch.NewApplyOptions()
	o.EscapeHTML = escape
	base := refApply(doc, []Op{op}, RefOpts{}, 0, nil)
	if base.Outside || base.Err != eNone {
		return
	}
	state := doc
	if !before {
		state = base.Doc
	}
	cur := lookupPtr(state, tp)
	if cur == nil {
		return
	}
	t := Op{Kind: OpTest, Path: tp, Val: cur.clone(), HasVal: true}
	var with []Op
	if before {
		with = []Op{t, op}
	} else {
		with = []Op{op, t}
	}
	docB := render(doc)
	pA, pB := renderPatch(with), renderPatch([]Op{op})
	vx.Note("doc", docB)
	vx.Note("patch-with-test", pA)
	vx.Note("patch", pB)
	a := runApply(docB, pA, o)
	b := runApply(docB, pB, o)
	vx.Assert(!a.panicked && !b.panicked, "C04/apply-no-panic")
	if a.panicked || b.panicked || a.decErr != nil || b.decErr != nil {
		return
	}
	vx.Assert(b.err == nil, "C01/succeeds-when-rfc-succeeds")
	if b.err != nil {
		return
	}
	vx.Assert(a.err == nil, "C15/passing-test-does-not-fail")
	if a.err != nil {
		return
	}
	vx.Assert(vx.EqBytes(a.out, b.out), "C15/passing-test-is-byte-neutral")
	vx.Reach("testneutral/end")
}
