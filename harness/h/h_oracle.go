package zzverif

// Oracle validation: the reference evaluators are run on the worked examples of the RFCs and compared with
// the results the RFCs print (not with the library). Replay cannot expose a wrong oracle (the native twin
// contains the same oracle), so this is the oracle's own, independent check.

import (
	"github.com/evanphx/json-patch/v5/zzverif/vx"
)

// opsFromJSON converts a parsed RFC 6902 patch document into reference operations.
func opsFromJSON(p *JV) ([]Op, bool) {
	if p.K != JArr {
		return nil, false
	}
	var ops []Op
	str := func(o *JV, name string) ([]byte, bool) {
		i := o.find([]byte(name))
		if i < 0 || o.Kids[i].K != JStr {
			return nil, false
		}
		return o.Kids[i].Lit, true
	}
	ptr := func(b []byte) (Ptr, bool) {
		if len(b) == 0 {
			return Ptr{}, true
		}
		if b[0] != '/' {
			return Ptr{}, false
		}
		var out Ptr
		cur := []byte{}
		flush := func() {
			name := []byte{}
			for k := 0; k < len(cur); k++ {
				if cur[k] == '~' && k+1 < len(cur) && cur[k+1] == '1' {
					name = append(name, '/')
					k++
				} else if cur[k] == '~' && k+1 < len(cur) && cur[k+1] == '0' {
					name = append(name, '~')
					k++
				} else {
					name = append(name, cur[k])
				}
			}
			out.Toks = append(out.Toks, Tok{Raw: append([]byte{}, cur...), Name: name})
			cur = []byte{}
		}
		for _, c := range b[1:] {
			if c == '/' {
				flush()
			} else {
				cur = append(cur, c)
			}
		}
		flush()
		return out, true
	}
	for _, e := range p.Kids {
		if e.K != JObj {
			return nil, false
		}
		name, ok := str(e, "op")
		if !ok {
			return nil, false
		}
		kind := -1
		for k, n := range opNamesJP {
			if string(name) == n {
				kind = k
			}
		}
		if kind < 0 {
			return nil, false
		}
		op := Op{Kind: kind}
		pb, ok := str(e, "path")
		if !ok {
			return nil, false
		}
		if op.Path, ok = ptr(pb); !ok {
			return nil, false
		}
		if kind == OpMove || kind == OpCopy {
			fb, ok := str(e, "from")
			if !ok {
				return nil, false
			}
			if op.From, ok = ptr(fb); !ok {
				return nil, false
			}
		}
		if i := e.find([]byte("value")); i >= 0 {
			op.Val = e.Kids[i]
			op.HasVal = true
		}
		ops = append(ops, op)
	}
	return ops, true
}

type rfc6902Case struct {
	doc, patch, want string // want == "" : the patch must fail
}

// RFC 6902 Appendix A (A.1 - A.16), with the results printed there.
var rfc6902Cases = []rfc6902Case{
	{`{"foo":"bar"}`, `[{"op":"add","path":"/baz","value":"qux"}]`, `{"baz":"qux","foo":"bar"}`},
	{`{"foo":["bar","baz"]}`, `[{"op":"add","path":"/foo/1","value":"qux"}]`, `{"foo":["bar","qux","baz"]}`},
	{`{"baz":"qux","foo":"bar"}`, `[{"op":"remove","path":"/baz"}]`, `{"foo":"bar"}`},
	{`{"foo":["bar","qux","baz"]}`, `[{"op":"remove","path":"/foo/1"}]`, `{"foo":["bar","baz"]}`},
	{`{"baz":"qux","foo":"bar"}`, `[{"op":"replace","path":"/baz","value":"boo"}]`, `{"baz":"boo","foo":"bar"}`},
	{`{"foo":{"bar":"baz","waldo":"fred"},"qux":{"corge":"grault"}}`, `[{"op":"move","from":"/foo/waldo","path":"/qux/thud"}]`, `{"foo":{"bar":"baz"},"qux":{"corge":"grault","thud":"fred"}}`},
	{`{"foo":["all","grass","cows","eat"]}`, `[{"op":"move","from":"/foo/1","path":"/foo/3"}]`, `{"foo":["all","cows","eat","grass"]}`},
	{`{"baz":"qux","foo":["a",2,"c"]}`, `[{"op":"test","path":"/baz","value":"qux"},{"op":"test","path":"/foo/1","value":2}]`, `{"baz":"qux","foo":["a",2,"c"]}`},
	{`{"baz":"qux"}`, `[{"op":"test","path":"/baz","value":"bar"}]`, ``},
	{`{"foo":"bar"}`, `[{"op":"add","path":"/child","value":{"grandchild":{}}}]`, `{"foo":"bar","child":{"grandchild":{}}}`},
	{`{"foo":"bar"}`, `[{"op":"add","path":"/baz","value":"qux","xyz":123}]`, `{"foo":"bar","baz":"qux"}`},
	{`{"foo":"bar"}`, `[{"op":"add","path":"/baz/bat","value":"qux"}]`, ``},
	{`{"/":9,"~1":10}`, `[{"op":"test","path":"/~01","value":10}]`, `{"/":9,"~1":10}`},
	{`{"/":9,"~1":10}`, `[{"op":"test","path":"/~01","value":"10"}]`, ``},
	{`{"foo":["bar"]}`, `[{"op":"add","path":"/foo/-","value":["abc","def"]}]`, `{"foo":["bar",["abc","def"]]}`},
	// RFC 6901 section 5 names, through test operations
	{`{"foo":["bar","baz"],"":0,"a/b":1,"c%d":2,"e^f":3,"g|h":4,"i\\j":5,"k\"l":6," ":7,"m~n":8}`,
		`[{"op":"test","path":"/a~1b","value":1},{"op":"test","path":"/m~0n","value":8},{"op":"test","path":"/ ","value":7},{"op":"test","path":"/foo/0","value":"bar"},{"op":"test","path":"/c%d","value":2}]`,
		`{"foo":["bar","baz"],"":0,"a/b":1,"c%d":2,"e^f":3,"g|h":4,"i\\j":5,"k\"l":6," ":7,"m~n":8}`},
}

// RFC 7396 Appendix A.
var rfc7396Cases = [][3]string{
	{`{"a":"b"}`, `{"a":"c"}`, `{"a":"c"}`},
	{`{"a":"b"}`, `{"b":"c"}`, `{"a":"b","b":"c"}`},
	{`{"a":"b"}`, `{"a":null}`, `{}`},
	{`{"a":"b","b":"c"}`, `{"a":null}`, `{"b":"c"}`},
	{`{"a":["b"]}`, `{"a":"c"}`, `{"a":"c"}`},
	{`{"a":"c"}`, `{"a":["b"]}`, `{"a":["b"]}`},
	{`{"a":{"b":"c"}}`, `{"a":{"b":"d","c":null}}`, `{"a":{"b":"d"}}`},
	{`{"a":[{"b":"c"}]}`, `{"a":[1]}`, `{"a":[1]}`},
	{`["a","b"]`, `["c","d"]`, `["c","d"]`},
	{`{"a":"b"}`, `["c"]`, `["c"]`},
	{`{"a":"foo"}`, `null`, `null`},
	{`{"a":"foo"}`, `"bar"`, `"bar"`},
	{`{"e":null}`, `{"a":1}`, `{"e":null,"a":1}`},
	{`[1,2]`, `{"a":"b","c":null}`, `{"a":"b"}`},
	{`{}`, `{"a":{"bb":{"ccc":null}}}`, `{"a":{"bb":{}}}`},
}

var rfc8259Accept = []string{`{}`, `[]`, ` [ ] `, `null`, `true`, `false`, `0`, `-0`, `-0.0`, `1E+2`, `1e-2`, `0.5`, `10`, `""`, `"é😀\n\t\"\\\/\b\f\r"`,
	`{"a":{"b":[1,2,{"c":null}]}}`, "\t\n\r 1 \t\n\r", `[[[[[]]]]]`, `"é"`, `{"":""}`, `123456789012345678901234567890`}
var rfc8259Reject = []string{``, ` `, `{`, `}`, `[`, `]`, `[1,]`, `{"a":1,}`, `{,}`, `[,1]`, `01`, `-`, `+1`, `1.`, `.5`, `1e`, `1e+`, `0x1`, `nul`, `True`, `'a'`, `"a`, `"\x"`, `"\u12"`, `"\u12g4"`,
	"\"a\tb\"", "\"a\nb\"", `{"a"}`, `{"a":}`, `{a:1}`, `{"a":1 "b":2}`, `[1 2]`, `1 2`, `{} {}`, `nullx`, "\v1", "1\f", `"\ud800`, "\xef\xbb\xbf1"}

// H_Oracle: concrete self-check of the three reference evaluators against the RFCs' own examples.
func H_Oracle() {
	for i, c := range rfc6902Cases {
		d, ok1 := parseJSON([]byte(c.doc))
		p, ok2 := parseJSON([]byte(c.patch))
		vx.Assert(ok1 && ok2, "ORACLE/rfc6902-example-parses-"+itoa(i))
		if !ok1 || !ok2 {
			continue
		}
		ops, ok := opsFromJSON(p)
		vx.Assert(ok, "ORACLE/rfc6902-example-converts-"+itoa(i))
		if !ok {
			continue
		}
		r := refApply(d, ops, RefOpts{}, 0, nil)
		if c.want == "" {
			vx.Assert(r.Err != eNone && !r.Outside, "ORACLE/rfc6902-example-must-fail-"+itoa(i))
			continue
		}
		w, _ := parseJSON([]byte(c.want))
		vx.Assert(r.Err == eNone && !r.Outside && refEqual(r.Doc, w), "ORACLE/rfc6902-example-result-"+itoa(i))
	}
	for i, c := range rfc7396Cases {
		d, _ := parseJSON([]byte(c[0]))
		p, _ := parseJSON([]byte(c[1]))
		w, _ := parseJSON([]byte(c[2]))
		vx.Assert(refEqual(refMerge(d, p), w), "ORACLE/rfc7396-example-result-"+itoa(i))
	}
	for i, s := range rfc8259Accept {
		vx.Assert(refValid([]byte(s)), "ORACLE/rfc8259-accept-"+itoa(i))
		_, ok := parseJSON([]byte(s))
		vx.Assert(ok, "ORACLE/parser-accept-"+itoa(i))
	}
	for i, s := range rfc8259Reject {
		vx.Assert(!refValid([]byte(s)), "ORACLE/rfc8259-reject-"+itoa(i))
		_, ok := parseJSON([]byte(s))
		vx.Assert(!ok, "ORACLE/parser-reject-"+itoa(i))
	}
	// refEqual is an equivalence on a few spellings
	a, _ := parseJSON([]byte(`{"a":[1,"xA"],"b":null}`))
	b, _ := parseJSON([]byte(` { "b" : null , "a" : [ 1 , "xA" ] } `))
	c, _ := parseJSON([]byte(`{"a":[1.0,"xA"],"b":null}`))
	vx.Assert(refEqual(a, b) && refEqual(b, a) && !refEqual(a, c) && !refEqualOrdered(a, b), "ORACLE/refequal-sanity")
	vx.Reach("oracle/end")
}
