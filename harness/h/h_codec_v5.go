package zzverif

// C17: the embedded codec is faithful and order-aware, and agrees with the standard library.

import (
	"bytes"
	stdjson "encoding/json"

	json "github.com/evanphx/json-patch/v5/internal/json"
	"github.com/evanphx/json-patch/v5/zzverif/vx"
)

const nCodecShapes = 8

// codecDoc: JSON texts with symbolic leaves: numbers d.d / -d / dEd, strings from the escape alphabet, nesting.
func codecDoc(i int, natoms, mask int) *JV {
	v1, s1 := escString("c.s1", natoms, mask)
	num := func(k int) *JV {
		switch k % 3 {
		case 0:
			return jNum([]byte{symDigit("c.n" + itoa(k) + ".0"), '.', symDigit("c.n" + itoa(k) + ".1")})
		case 1:
			return jNum([]byte{'-', symDigit19("c.n" + itoa(k) + ".0")})
		}
		return jNum([]byte{symDigit19("c.n" + itoa(k) + ".0"), 'E', symDigit("c.n" + itoa(k) + ".1")})
	}
	nm := func(k int) []byte { return []byte{symLetter("c.k" + itoa(k))} }
	switch i {
	case 0:
		return jStrSp(v1, s1)
	case 1:
		return num(0)
	case 2:
		return jArr(num(0), jStrSp(v1, s1), jNull(), jBool(true), jArr())
	case 3:
		return jObj().withB(nm(0), num(1)).withB(nm(1), jStrSp(v1, s1)).withB(nm(2), jNull())
	case 4:
		return jObj().withB(nm(0), jObj().withB(nm(1), jArr(num(2), jObj()))).withB(nm(2), jBool(false))
	case 5:
		o := jObj()
		o.Keys = append(o.Keys, v1)
		o.KSp = append(o.KSp, s1)
		o.Kids = append(o.Kids, num(0))
		return o
	case 6:
		return jArr(jObj().withB(nm(0), jStrSp(v1, s1)), jObj().withB(nm(1), num(1)))
	case 7:
		return jNumS("12345678901234567890123")
	}
	panic("codecDoc")
}

// H_Codec_RoundTrip: Unmarshal into any, Marshal, read back: same value (numbers by literal when decoded with
// UseNumber semantics is not available through Unmarshal; the default decoding into float64 is compared for
// the templates whose numbers are float64-exact); key lists in document order.
func H_Codec_RoundTrip() {
	doc := codecDoc(vx.Choose("shape", nCodecShapes), vx.Param("natoms"), vx.Param("atommask"))
	vx.Assume(!doc.hasDupKeys())
	text := render(doc)
	if vx.Param("pad") == 1 {
		text = renderPadded(doc, "c.")
	}
	vx.Note("text", text)
	// (a) UnmarshalValid keeps number literals (json.Number) -> Marshal reproduces the value exactly
	var v interface{}
	var out, outNoEsc []byte
	var err, merr, merr2 error
	panicked := vx.CatchPanic(func() {
		err = json.UnmarshalValid(text, &v)
		if err != nil {
			return
		}
		out, merr = json.Marshal(v)
		outNoEsc, merr2 = json.MarshalEscaped(v, false)
	})
	vx.Assert(!panicked, "C17/roundtrip-no-panic")
	if panicked {
		vx.Note("panic", []byte(vx.PanicMsg()))
		return
	}
	vx.Assert(err == nil && merr == nil && merr2 == nil, "C17/roundtrip-succeeds")
	if err != nil || merr != nil || merr2 != nil {
		return
	}
	got, ok := parseJSON(out)
	vx.Assert(ok && refEqual(got, doc), "C17/decode-encode-reproduces-the-value")
	got2, ok2 := parseJSON(outNoEsc)
	vx.Assert(ok2 && refEqual(got2, doc), "C17/escape-switch-changes-only-spelling")
	vx.Assert(noRawHTML(out), "C17/escaping-on-leaves-no-raw-html-characters")
	// pre-encoded JSON (RawMessage) goes through compact() with escaping: same value, same bytes as the standard library
	rm, rerr := json.Marshal(json.RawMessage(text))
	srm, serr := stdjson.Marshal(stdjson.RawMessage(text))
	vx.Assert(rerr == nil && serr == nil, "C17/rawmessage-marshal-succeeds")
	if rerr == nil && serr == nil {
		g3, ok3 := parseJSON(rm)
		vx.Assert(ok3 && refEqualOrdered(g3, doc), "C17/rawmessage-keeps-value-and-order")
		vx.Assert(noRawHTML(rm), "C17/rawmessage-escaped")
		vx.Assert(vx.EqBytes(normBF(rm), normBF(srm)), "C17/rawmessage-same-bytes-as-stdlib")
	}
	// (b) Compact / Indent / HTMLEscape keep the value and the member order
	var cb, ib, hb bytes.Buffer
	e1 := json.Compact(&cb, text)
	e2 := json.Indent(&ib, text, "", "\t")
	json.HTMLEscape(&hb, text)
	vx.Assert(e1 == nil && e2 == nil, "C17/compact-indent-succeed")
	if e1 == nil && e2 == nil {
		c, okc := parseJSON(cb.Bytes())
		in, oki := parseJSON(ib.Bytes())
		h, okh := parseJSON(hb.Bytes())
		vx.Assert(okc && refEqualOrdered(c, doc), "C17/compact-keeps-value-and-order")
		vx.Assert(oki && refEqualOrdered(in, doc), "C17/indent-keeps-value-and-order")
		vx.Assert(okh && refEqualOrdered(h, doc), "C17/htmlescape-keeps-value-and-order")
		vx.Assert(noRawHTML(hb.Bytes()), "C17/htmlescape-leaves-no-raw-html-characters")
		// Compact removes exactly the insignificant whitespace: compacting the compact text changes nothing
		var cb2 bytes.Buffer
		json.Compact(&cb2, cb.Bytes())
		vx.Assert(vx.EqBytes(cb.Bytes(), cb2.Bytes()), "C17/compact-idempotent")
		// Indent drops leading whitespace but (as documented) keeps trailing whitespace of its input
		ibt := ib.Bytes()
		for len(ibt) > 0 && isWS(ibt[len(ibt)-1]) {
			ibt = ibt[:len(ibt)-1]
		}
		vx.Assert(vx.EqBytes(ibt, refIndent(cb.Bytes(), []byte{'\t'})), "C17/indent-is-compact-reindented")
	}
	// (c) key lists in document order
	if doc.K == JObj {
		var m map[string]interface{}
		keys, kerr := json.UnmarshalValidWithKeys(text, &m)
		keys2, kerr2 := json.UnmarshalWithKeys(text, &m)
		vx.Assert(kerr == nil && kerr2 == nil && len(keys) == len(doc.Keys) && len(keys2) == len(doc.Keys), "C17/keys-reported")
		if kerr == nil && kerr2 == nil && len(keys) == len(doc.Keys) && len(keys2) == len(doc.Keys) {
			acc := true
			for i, k := range doc.Keys {
				acc = vx.And(acc, vx.And(vx.EqStr(keys[i], string(k)), vx.EqStr(keys2[i], string(k))))
			}
			vx.Assert(acc, "C17/keys-in-document-order")
		}
		vx.Reach("codec/object")
	}
	vx.Reach("codec/roundtrip-end")
}

// normBF normalises the spelling of U+0008 and U+000C, which differs between Go releases (short escapes in the
// standard library of this toolchain, \u00XX in the fork): the property says it is normalised before comparing.
func normBF(b []byte) []byte {
	var out []byte
	for i := 0; i < len(b); i++ {
		if b[i] == '\\' && i+1 < len(b) {
			if b[i+1] == 'u' && i+5 < len(b) && b[i+2] == '0' && b[i+3] == '0' && b[i+4] == '0' && (b[i+5] == '8' || b[i+5] == 'c' || b[i+5] == 'C') {
				if b[i+5] == '8' {
					out = append(out, '\\', 'b')
				} else {
					out = append(out, '\\', 'f')
				}
				i += 5
				continue
			}
			// any other escape: copy both bytes so that an escaped backslash is not read as the start of an escape
			out = append(out, b[i], b[i+1])
			i++
			continue
		}
		out = append(out, b[i])
	}
	return out
}

type tagged struct {
	Name  string            `json:"name"`
	Skip  string            `json:"-"`
	Opt   string            `json:"opt,omitempty"`
	Num   int               `json:"num,string"`
	Flag  bool              `json:"flag"`
	Plain []string          `json:"list"`
	M     map[string]string `json:"m,omitempty"`
	Inner *inner            `json:"inner,omitempty"`
	embedded
	unexported int
}

type inner struct {
	A string `json:"a"`
	B int
}

type embedded struct {
	E string `json:"e"`
}

// H_Codec_Differential: the fork and the standard library (both executed from source) agree on Marshal and
// Unmarshal for dynamic values, maps, slices and a struct type with tags.
func H_Codec_Differential() {
	v1, _ := escString("d.s1", 1, vx.Param("atommask"))
	s1 := string(v1)
	s2 := string([]byte{symPlain("d.s2")})
	n := []int{0, 7, 42}[vx.Choose("d.n", 3)] // concrete: the encoders format numbers through float/int printing
	flag := vx.Bool("d.flag")
	var val interface{}
	switch vx.Choose("value", 9) {
	case 7, 8:
		// byte slices around the sizes at which the encoder switches strategy (base64 scratch buffer of 64 bytes)
		n := []int{0, 1, 47, 48, 49, 63, 64, 65, 100}[vx.Choose("d.len", 9)]
		b := make([]byte, n)
		for k := range b {
			b[k] = byte(k * 7)
		}
		if n > 0 {
			b[0] = vx.Byte("d.b0")
		}
		if vx.Choose("d.wrap", 2) == 1 {
			val = map[string]interface{}{"bin": b}
		} else {
			val = b
		}
	case 0:
		val = map[string]interface{}{"b": s1, "a": []interface{}{nil, true, s2, float64(n)}, "c": map[string]interface{}{}}
	case 1:
		val = []interface{}{s1, map[string]interface{}{s2: flag}}
	case 2:
		val = []string{s1, s2, ""}
	case 3:
		val = map[string]string{"k": s1, s2: "v"}
	case 4:
		opt := ""
		if vx.Choose("opt", 2) == 1 {
			opt = s2
		}
		val = tagged{Name: s1, Skip: "x", Opt: opt, Num: n, Flag: flag, Plain: []string{s2}, embedded: embedded{E: s2}}
	case 5:
		val = &tagged{Name: s1, M: map[string]string{"z": s2}, Inner: &inner{A: s2, B: n}}
	case 6:
		val = s1
	}
	var a, b []byte
	var ea, eb error
	panicked := vx.CatchPanic(func() {
		a, ea = json.Marshal(val)
		b, eb = stdjson.Marshal(val)
	})
	vx.Assert(!panicked, "C17/differential-no-panic")
	if panicked {
		vx.Note("panic", []byte(vx.PanicMsg()))
		return
	}
	vx.Note("fork", a)
	vx.Note("stdlib", b)
	vx.Assert((ea == nil) == (eb == nil), "C17/marshal-same-success-as-stdlib")
	if ea != nil || eb != nil {
		return
	}
	vx.Assert(vx.EqBytes(normBF(a), normBF(b)), "C17/marshal-same-bytes-as-stdlib")
	// decode what was encoded, with both codecs, into the same kind of destination
	switch val.(type) {
	case tagged, *tagged:
		var x, y tagged
		e1 := json.Unmarshal(a, &x)
		e2 := stdjson.Unmarshal(a, &y)
		vx.Assert(e1 == nil && e2 == nil, "C17/unmarshal-struct-succeeds")
		if e1 == nil && e2 == nil {
			ra, _ := stdjson.Marshal(x)
			rb, _ := stdjson.Marshal(y)
			vx.Assert(vx.EqBytes(normBF(ra), normBF(rb)), "C17/unmarshal-struct-same-as-stdlib")
			vx.Assert(vx.EqStr(x.Name, y.Name) && x.Num == y.Num && x.Flag == y.Flag && vx.EqStr(x.E, y.E) && vx.EqStr(x.Opt, y.Opt), "C17/unmarshal-struct-fields-same-as-stdlib")
		}
	default:
		var x, y interface{}
		e1 := json.Unmarshal(a, &x)
		e2 := stdjson.Unmarshal(a, &y)
		vx.Assert(e1 == nil && e2 == nil, "C17/unmarshal-any-succeeds")
		if e1 == nil && e2 == nil {
			// the fork decodes numbers into its own Number type (normalised here by encoding each result
			// with its own codec: the literals are small integers, spelled alike by both)
			ra, _ := json.Marshal(x)
			rb, _ := stdjson.Marshal(y)
			vx.Assert(vx.EqBytes(normBF(ra), normBF(rb)), "C17/unmarshal-any-same-as-stdlib")
		}
	}
	vx.Reach("codec/differential-end")
}

// H_Codec_Stream: one value through Decoder/Encoder of the fork and of the standard library (both executed).
var streamIndents = [][2]string{{"", ""}, {"", "  "}, {">", ""}, {"\t", "\t"}, {">", " "}}

func H_Codec_Stream() {
	doc := codecDoc(vx.Choose("shape", nCodecShapes), 1, vx.Param("atommask"))
	vx.Assume(!doc.hasDupKeys())
	text := render(doc)
	// two values in one stream, separated by symbolic whitespace
	stream := append(append(append([]byte{}, text...), symWS("s.ws")), []byte(`[true]`)...)
	vx.Note("stream", stream)
	var a1, a2, b1, b2 interface{}
	var ea1, ea2, eb1, eb2 error
	var fa, fb bytes.Buffer
	var moreA, moreB bool
	indentMode := vx.Choose("indent", len(streamIndents))
	panicked := vx.CatchPanic(func() {
		da := json.NewDecoder(bytes.NewReader(stream))
		da.UseNumber()
		ea1 = da.Decode(&a1)
		moreA = da.More()
		ea2 = da.Decode(&a2)
		db := stdjson.NewDecoder(bytes.NewReader(stream))
		db.UseNumber()
		eb1 = db.Decode(&b1)
		moreB = db.More()
		eb2 = db.Decode(&b2)
		esc := vx.Choose("escape", 2) == 1
		enc := json.NewEncoder(&fa)
		enc.SetEscapeHTML(esc)
		encB := stdjson.NewEncoder(&fb)
		encB.SetEscapeHTML(esc)
		if indentMode > 0 {
			enc.SetIndent(streamIndents[indentMode][0], streamIndents[indentMode][1])
			encB.SetIndent(streamIndents[indentMode][0], streamIndents[indentMode][1])
		}
		enc.Encode(a1)
		enc.Encode(a2)
		encB.Encode(b1)
		encB.Encode(b2)
	})
	vx.Assert(!panicked, "C17/stream-no-panic")
	if panicked {
		vx.Note("panic", []byte(vx.PanicMsg()))
		return
	}
	vx.Assert(ea1 == nil && ea2 == nil && eb1 == nil && eb2 == nil, "C17/stream-decodes")
	vx.Assert(moreA == moreB, "C17/stream-more-same-as-stdlib")
	if ea1 != nil || ea2 != nil || eb1 != nil || eb2 != nil {
		return
	}
	// same values as the standard library (each re-encoded by its own codec: Number types differ)
	ra, _ := json.Marshal(a1)
	rb, _ := stdjson.Marshal(b1)
	vx.Assert(vx.EqBytes(normBF(ra), normBF(rb)), "C17/stream-decode-same-as-stdlib")
	// the Encoder writes what the standard library's Encoder writes under the same settings (prefix/indent pairs
	// including prefix-only and indent-only)
	vx.Assert(vx.EqBytes(normBF(fa.Bytes()), normBF(fb.Bytes())), "C17/encoder-same-as-stdlib")
	if indentMode > 0 {
		vx.Reach("codec/stream-end")
		return
	}
	// what the Encoder wrote reads back as the two values, one per line
	out := fa.Bytes()
	nl := -1
	for i, c := range out {
		if c == '\n' {
			nl = i
			break
		}
	}
	vx.Assert(nl > 0 && len(out) > 0 && out[len(out)-1] == '\n', "C17/encoder-one-value-per-line")
	if nl > 0 {
		g, ok := parseJSON(out[:nl])
		vx.Assert(ok && refEqual(g, doc), "C17/stream-roundtrip-value")
	}
	vx.Reach("codec/stream-end")
}
