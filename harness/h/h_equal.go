package zzverif

import (
	jsonpatch "github.com/evanphx/json-patch/v5"
	"github.com/evanphx/json-patch/v5/zzverif/vx"
)

const nEqShapes = 23

// eqShape builds value shape i with symbolic names (alphabet a..d) and leaves.
func eqShape(i int, p string) *JV {
	nm := func(k int) []byte { return []byte{symLetter(p + "k" + itoa(k))} }
	n := func(k int) *JV { return symNum(p + "n" + itoa(k)) }
	s := func(k int) *JV { return symStr1(p + "s" + itoa(k)) }
	switch i {
	case 0:
		return jNull()
	case 1:
		return jBool(true)
	case 2:
		return jBool(false)
	case 3:
		return n(0)
	case 4:
		return s(0)
	case 5:
		return jObj()
	case 6:
		return &JV{K: JArr, Kids: []*JV{}}
	case 7:
		return jObj().withB(nm(0), n(0))
	case 8:
		return jObj().withB(nm(0), n(0)).withB(nm(1), n(1))
	case 9:
		return jArr(n(0))
	case 10:
		return jArr(jNull())
	case 11:
		return jArr(n(0), n(1))
	case 12:
		return jObj().withB(nm(0), jNull())
	case 13:
		return jObj().withB(nm(0), jObj().withB(nm(1), n(0)))
	case 14:
		return jObj().withB(nm(0), jArr(n(0)))
	case 15:
		return jArr(jObj().withB(nm(0), n(0)))
	case 16:
		return jObj().withB(nm(0), s(0))
	case 17:
		return jArr(jArr(n(0)))
	case 18:
		return jObj().withB(nm(0), jNull()).withB(nm(1), n(0))
	case 19:
		return jArr(n(0), jNull())
	case 20:
		return symEscStr(p + "e0")
	case 21:
		return jObj().withB(nm(0), symEscStr(p+"e0"))
	case 22:
		return jArr(jObj().withB(nm(0), n(0)).withB(nm(1), s(0)))
	}
	panic("eqShape")
}

var hexDigits = "0123456789abcdef"

// respell returns a copy of v whose strings and member names are spelled with \u00XX
// escapes and whose text carries symbolic whitespace (mode 1), or with members reversed (mode 2).
func respell(v *JV, mode int) *JV {
	c := v.clone()
	var walk func(x *JV)
	walk = func(x *JV) {
		esc := func(b []byte) []byte {
			var out []byte
			for _, ch := range b {
				if ch >= 0x80 {
					out = append(out, ch) // multi-byte UTF-8 stays as it is
					continue
				}
				out = append(out, '\\', 'u', '0', '0', hexDigits[ch>>4], hexDigits[ch&15])
			}
			return out
		}
		if x.K == JStr && mode == 1 {
			x.Sp = esc(x.Lit)
		}
		if x.K == JObj {
			if mode == 1 {
				x.KSp = make([][]byte, len(x.Keys))
				for i, k := range x.Keys {
					x.KSp[i] = esc(k)
				}
			}
			if mode == 2 {
				for a, b := 0, len(x.Keys)-1; a < b; a, b = a+1, b-1 {
					x.Keys[a], x.Keys[b] = x.Keys[b], x.Keys[a]
					x.Kids[a], x.Kids[b] = x.Kids[b], x.Kids[a]
				}
			}
		}
		for _, k := range x.Kids {
			walk(k)
		}
	}
	walk(c)
	return c
}

func symWS(name string) byte {
	b := vx.Byte(name)
	vx.Assume(vx.Or(vx.Or(b == ' ', b == '\t'), vx.Or(b == '\n', b == '\r')))
	return b
}

// renderPadded renders v with one symbolic whitespace byte around every structural token.
func renderPadded(v *JV, p string) []byte {
	n := 0
	ws := func(out []byte) []byte {
		n++
		return append(out, symWS(p+"ws"+itoa(n)))
	}
	var r func(out []byte, x *JV) []byte
	r = func(out []byte, x *JV) []byte {
		out = ws(out)
		switch x.K {
		case JObj:
			out = append(out, '{')
			for i := range x.Keys {
				if i > 0 {
					out = append(out, ',')
				}
				out = ws(out)
				var sp []byte
				if x.KSp != nil {
					sp = x.KSp[i]
				}
				out = appendQuoted(out, x.Keys[i], sp)
				out = ws(out)
				out = append(out, ':')
				out = r(out, x.Kids[i])
			}
			out = ws(out)
			out = append(out, '}')
		case JArr:
			out = append(out, '[')
			for i := range x.Kids {
				if i > 0 {
					out = append(out, ',')
				}
				out = r(out, x.Kids[i])
			}
			out = ws(out)
			out = append(out, ']')
		default:
			out = renderTo(out, x)
		}
		return ws(out)
	}
	return r(nil, v)
}

// H_Equal: Equal(a, b) agrees with structural equality on pairs of well-formed texts.
// mode 0: two independent shapes; mode 1: b is a re-spelled / padded / reordered copy of a.
func H_Equal() {
	nsh := vx.Param("nshapes")
	A := eqShape(vx.Choose("sa", nsh), "a.")
	vx.Assume(!A.hasDupKeys())
	var B *JV
	var aB, bB []byte
	aB = render(A)
	if vx.Param("containers") == 1 && !A.isContainer() {
		return
	}
	switch chooseMask("mode", vx.Param("modes"), 5) {
	case 4:
		// members reversed AND symbolic whitespace at every structural position
		B = respell(A, 2)
		bB = renderPadded(B, "b.")
	case 0:
		B = eqShape(vx.Choose("sb", nsh), "b.")
		vx.Assume(!B.hasDupKeys())
		if vx.Param("containers") == 1 && !B.isContainer() {
			return
		}
		bB = render(B)
	case 1:
		B = respell(A, 1)
		bB = render(B)
	case 2:
		B = respell(A, 2)
		bB = render(B)
	case 3:
		B = A
		bB = renderPadded(A, "b.")
	}
	vx.Note("a", aB)
	vx.Note("b", bB)
	var got, got2 bool
	panicked := vx.CatchPanic(func() {
		got = jsonpatch.Equal(aB, bB)
		got2 = jsonpatch.Equal(bB, aB)
	})
	vx.Assert(!panicked, "C04/equal-no-panic")
	vx.Assert(!panicked, "C06/equal-no-panic")
	vx.Assert(!panicked, "C19/equal-no-panic")
	if panicked {
		vx.Note("panic", []byte(vx.PanicMsg()))
		vx.Reach("equal/panicked")
		return
	}
	want := refEqual(A, B)
	vx.Assert(got == want, "C06/equal-iff-structural")
	vx.Assert(got2 == want, "C06/symmetric")
	vx.Assert(got == want, "C19/equal-iff-structural")
	vx.Assert(got2 == want, "C19/equal-symmetric")
	if got {
		vx.Reach("equal/true")
	} else {
		vx.Reach("equal/false")
	}
}
