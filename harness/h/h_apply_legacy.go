package zzverif

// C18: the legacy root package (v4 API). Same generators and the same RFC 6902 reference as the v5 harness,
// with the narrower domain the property states.

import (
	"errors"

	jsonpatch "github.com/evanphx/json-patch/v5"
	"github.com/evanphx/json-patch/v5/zzverif/vx"
)

func legacyIsCopyErr(err error) bool {
	var ce *jsonpatch.AccumulatedCopySizeError
	return errors.As(err, &ce)
}

// H_Legacy_Apply: K operations on one document shape; SupportNegativeIndices (package variable) on/off;
// optionally the package-level AccumulatedCopySizeLimit as a symbolic int64.
func H_Legacy_Apply() {
	K := vx.Param("k")
	shape := chooseMask("shape", vx.Param("shapemask"), nDocShapes)
	doc := docShape(shape, "d.")
	ops := make([]Op, K)
	for i := range ops {
		mx := vx.ParamOr("maxtok"+itoa(i), vx.Param("maxtok"))
		mn := vx.ParamOr("mintok"+itoa(i), 1)
		ops[i] = genOp("op"+itoa(i), vx.Param("kmask"+itoa(i)), mn, mx, vx.Param("tokmask"), vx.Param("nvals"))
		// v4 offers neither a root-replacing add nor copy from ""; empty pointers are outside the domain
		if (ops[i].Kind == OpMove || ops[i].Kind == OpCopy) && len(ops[i].From.Toks) == 0 {
			return
		}
	}
	checkLegacy(doc, ops)
}

// H_Legacy_TestOp: the test operation as a relation between two values (see H_TestOp); the target sits under a
// member or at an array element (the empty pointer is outside the legacy domain).
func H_Legacy_TestOp() {
	nsh := vx.ParamOr("shapes", nEqShapes)
	X := eqShape(vx.Choose("sx", nsh), "x.")
	vx.Assume(!X.hasDupKeys())
	Y := eqShape(vx.Choose("sy", nsh), "y.")
	vx.Assume(!Y.hasDupKeys())
	var doc *JV
	var ptr Ptr
	switch vx.Choose("where", 2) {
	case 0:
		doc = jObj().with("t", X).with("z", symNum("d.z"))
		ptr = Ptr{Toks: []Tok{{Raw: []byte("t"), Name: []byte("t")}}}
	case 1:
		doc = jArr(symNum("d.z"), X)
		ptr = Ptr{Toks: []Tok{{Raw: []byte("1"), Name: []byte("1")}}}
	}
	ops := []Op{{Kind: OpTest, Path: ptr, Val: Y, HasVal: true}}
	if vx.ParamOr("then", 0) == 1 {
		ops = append(ops, Op{Kind: OpAdd, Path: Ptr{Toks: []Tok{{Raw: []byte("-"), Name: []byte("-")}}}, Val: jBool(true), HasVal: true})
	}
	checkLegacy(doc, ops)
}

func checkLegacy(doc *JV, ops []Op) {
	neg := vx.Choose("negidx", 2) == 1
	jsonpatch.SupportNegativeIndices = neg
	var limit int64
	var sizeOf func(*JV) int
	if vx.ParamOr("limit", 0) == 1 {
		limit = vx.Int64("limit")
		jsonpatch.AccumulatedCopySizeLimit = limit
		sizeOf = func(v *JV) int { return escapedSize(v, true) }
	}
	docB := render(doc)
	patchB := renderPatch(ops)
	vx.Note("doc", docB)
	vx.Note("patch", patchB)
	var out []byte
	var err, derr error
	panicked := vx.CatchPanic(func() {
		var p jsonpatch.Patch
		p, derr = jsonpatch.DecodePatch(patchB)
		if derr != nil {
			return
		}
		out, err = p.Apply(docB)
	})
	vx.Assert(!panicked, "C04/legacy-apply-no-panic")
	vx.Assert(!panicked, "C18/no-panic")
	if panicked {
		vx.Note("panic", []byte(vx.PanicMsg()))
		return
	}
	if derr != nil {
		return
	}
	ref := refApply(doc, ops, RefOpts{NegIdx: neg}, limit, sizeOf)
	if ref.Outside {
		vx.Reach("legacy/outside-domain")
		return
	}
	if ref.Err != eNone {
		op := ops[ref.FailedAt]
		// the classes the property names: failed test, remove/move of an absent location, index out of range,
		// and a negative index while the SupportNegativeIndices setting is off
		demanded := ref.Err == eTestFailed || ref.IdxOut || ref.NegUsedOff || (ref.Err == eMissing && (op.Kind == OpRemove || op.Kind == OpMove))
		if demanded {
			vx.Assert(err != nil, "C18/inapplicable-operation-is-an-error")
			vx.Assert(err == nil || out == nil, "C18/no-document-on-error")
			vx.Reach("legacy/ref-fails")
		}
		if ref.Err == eCopyLimit {
			vx.Assert(err != nil && legacyIsCopyErr(err), "C12/legacy-limit-error-when-total-exceeds")
			vx.Reach("legacy/copy-limit-hit")
		} else if err != nil && demanded {
			// only where the legacy package must stop at this operation: on an error class it does not raise (copy
			// from an absent member copies a null) it goes on, and a later copy may legitimately exceed the limit
			vx.Assert(!legacyIsCopyErr(err), "C12/legacy-limit-error-only-from-limit")
		}
		return
	}
	vx.Assert(err == nil, "C18/applicable-patch-succeeds")
	vx.Assert(err == nil || !legacyIsCopyErr(err), "C12/legacy-no-limit-error-within-limit")
	if err != nil {
		return
	}
	got, ok := parseJSON(out)
	vx.Assert(ok, "C18/output-parses")
	if !ok {
		return
	}
	vx.Assert(refEqual(got, ref.Doc), "C18/result-equals-rfc")
	vx.Reach("legacy/end")
}
