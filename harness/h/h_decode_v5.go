package zzverif

// C11: DecodePatch accepts exactly well-formed RFC 6902 patch documents.
// A patch text is assembled member by member: each of op / path / from / value /
// an extra member is absent, null, string, number, object, array, present under a
// case-renamed key, or duplicated; the op string is one of the six names or L symbolic bytes.

import (
	jsonpatch "github.com/evanphx/json-patch/v5"
	json "github.com/evanphx/json-patch/v5/internal/json"
	"github.com/evanphx/json-patch/v5/zzverif/vx"
)

const (
	mAbsent = iota
	mNull
	mString
	mNumber
	mObject
	mArray
	mRenamed // present as a string, but under a key that differs in case
	nMemberStates
)

type memberSpec struct {
	state int
	val   *JV // the value rendered (nil when absent)
}

func genMember(name string, p string, strVal *JV) memberSpec {
	st := vx.Choose(p+name+".state", nMemberStates)
	switch st {
	case mAbsent:
		return memberSpec{state: st}
	case mNull:
		return memberSpec{st, jNull()}
	case mString, mRenamed:
		return memberSpec{st, strVal}
	case mNumber:
		if vx.Choose(p+name+".big", 2) == 1 {
			return memberSpec{st, jNumS("1e400")} // outside float64: must still be accepted and carried as a literal
		}
		return memberSpec{st, symNum(p + name + ".n")}
	case mObject:
		return memberSpec{st, jObj().with("k", symNum(p+name+".o"))}
	case mArray:
		return memberSpec{st, jArr(symStr1(p + name + ".a"))}
	}
	panic("genMember")
}

var renamedKey = map[string]string{"op": "Op", "path": "PATH", "from": "From", "value": "Value"}

type opSpec struct {
	op, path, from, value memberSpec
	extra                 bool
	dupPath               bool // "path" appears twice with the same string value class
	opName                []byte
}

func isOpName(b []byte) (add, remove, replace, move, cp, test bool) {
	return vx.EqBytes(b, []byte("add")), vx.EqBytes(b, []byte("remove")), vx.EqBytes(b, []byte("replace")),
		vx.EqBytes(b, []byte("move")), vx.EqBytes(b, []byte("copy")), vx.EqBytes(b, []byte("test"))
}

func genOpSpec(p string) (opSpec, *JV) {
	var s opSpec
	// op name: concrete valid name, or L symbolic letters
	switch k := vx.Choose(p+"opname", 9); {
	case k < 6:
		s.opName = []byte(opNamesJP[k])
	default:
		L := []int{3, 4, 6}[k-6]
		s.opName = make([]byte, L)
		for i := range s.opName {
			b := vx.Byte(p + "opname." + itoa(i))
			vx.Assume(vx.Or(vx.And(b >= 'a', b <= 'z'), vx.And(b >= 'A', b <= 'Z')))
			s.opName[i] = b
		}
	}
	s.op = genMember("op", p, jStr(s.opName))
	s.path = genMember("path", p, jStr([]byte{'/', symTokByte(p + "path.t")}))
	s.from = genMember("from", p, jStr([]byte{'/', symTokByte(p + "from.t")}))
	s.value = genMember("value", p, symStr1(p+"value.s"))
	s.extra = vx.Choose(p+"extra", 2) == 1
	s.dupPath = s.path.state == mString && vx.Choose(p+"duppath", 2) == 1
	o := jObj()
	put := func(name string, m memberSpec) {
		if m.state == mAbsent {
			return
		}
		key := name
		if m.state == mRenamed {
			key = renamedKey[name]
		}
		o.with(key, m.val)
	}
	// member order varies with the extra member first or last
	if s.extra {
		o.with("comment", jArr(jNull()))
	}
	put("value", s.value)
	put("path", s.path)
	put("op", s.op)
	put("from", s.from)
	if s.dupPath {
		o.with("path", s.path.val)
	}
	return s, o
}

// accepts: the property's acceptance predicate for one operation object (as one boolean term where the op name is symbolic).
func (s opSpec) accepts() bool {
	if s.op.state != mString || s.path.state != mString {
		return false
	}
	add, remove, replace, move, cp, test := isOpName(s.opName)
	needsValue := vx.Or(add, replace)
	needsFrom := vx.Or(move, cp)
	known := vx.Or(vx.Or(needsValue, needsFrom), vx.Or(remove, test))
	hasValue := s.value.state != mAbsent && s.value.state != mRenamed
	hasFrom := s.from.state == mString
	ok := vx.And(known, vx.And(vx.Implies(needsValue, hasValue), vx.Implies(needsFrom, hasFrom)))
	return ok
}

// sameValue compares what ValueInterface returned with the generating tree.
func sameValue(got interface{}, want *JV) bool {
	switch want.K {
	case JNull:
		return got == nil
	case JTrue, JFalse:
		b, ok := got.(bool)
		return ok && b == (want.K == JTrue)
	case JNum:
		switch n := got.(type) {
		case json.Number:
			return vx.EqStr(string(n), string(want.Lit))
		}
		return false
	case JStr:
		s, ok := got.(string)
		return ok && vx.EqStr(s, string(want.Lit))
	case JArr:
		a, ok := got.([]interface{})
		if !ok || len(a) != len(want.Kids) {
			return false
		}
		acc := true
		for i := range a {
			acc = vx.And(acc, sameValue(a[i], want.Kids[i]))
		}
		return acc
	case JObj:
		m, ok := got.(map[string]interface{})
		if !ok || len(m) != len(want.Kids) {
			return false
		}
		acc := true
		for i, k := range want.Keys {
			v, ok := m[string(k)]
			if !ok {
				return false
			}
			acc = vx.And(acc, sameValue(v, want.Kids[i]))
		}
		return acc
	}
	return false
}

// H_DecodePatch: one or two operation objects with every member state, or a non-object element / non-array root.
func H_DecodePatch() {
	nel := vx.Param("elements")
	var text []byte
	var specs []opSpec
	rootKind := vx.Choose("root", 4)
	wantAccept := true
	switch rootKind {
	case 0: // array of operation objects
		arr := &JV{K: JArr, Kids: []*JV{}}
		n := 1 + vx.Choose("nel", nel)
		fixed := vx.ParamOr("fixed", -1) // index of an element that is a fixed valid operation (keeps two-element families tractable)
		for i := 0; i < n; i++ {
			if i == fixed && n > 1 {
				v := symNum("e" + itoa(i) + ".fixed")
				specs = append(specs, opSpec{op: memberSpec{mString, jStrS("add")}, path: memberSpec{mString, jStrS("/f")}, value: memberSpec{mNumber, v}, opName: []byte("add")})
				arr.Kids = append(arr.Kids, jObj().with("op", jStrS("add")).with("path", jStrS("/f")).with("value", v))
				continue
			}
			s, o := genOpSpec("e" + itoa(i) + ".")
			specs = append(specs, s)
			arr.Kids = append(arr.Kids, o)
		}
		text = render(arr)
	case 1: // array with a non-object element
		el := []*JV{symNum("el.n"), symStr1("el.s"), jNull(), jArr(), jBool(true)}[vx.Choose("elkind", 5)]
		text = render(jArr(el))
		wantAccept = false
	case 2: // non-array root
		r := []*JV{jObj().with("op", jStrS("add")).with("path", jStrS("/a")).with("value", symNum("r.n")), symNum("r.n2"), symStr1("r.s"), jBool(false)}[vx.Choose("rkind", 4)]
		text = render(r)
		wantAccept = false
	case 3: // the empty array
		text = []byte("[]")
	}
	if vx.ParamOr("pad", 0) == 1 {
		// one symbolic whitespace byte before and after the text
		text = append(append([]byte{symWS("ws.lead")}, text...), symWS("ws.trail"))
	}
	vx.Note("patch", text)
	var p jsonpatch.Patch
	var err error
	panicked := vx.CatchPanic(func() { p, err = jsonpatch.DecodePatch(text) })
	vx.Assert(!panicked, "C04/decodepatch-no-panic")
	vx.Assert(!panicked, "C11/decodepatch-returns")
	if panicked {
		vx.Note("panic", []byte(vx.PanicMsg()))
		return
	}
	acc := wantAccept
	for _, s := range specs {
		acc = vx.And(acc, s.accepts())
	}
	vx.Assert((err == nil) == acc, "C11/accepts-iff-wellformed-patch")
	vx.Assert((err == nil) == (p != nil), "C11/patch-nil-iff-error")
	if err != nil {
		vx.Reach("decode/rejected")
		return
	}
	vx.Reach("decode/accepted")
	vx.Assert(len(p) == len(specs), "C11/one-operation-per-element")
	if len(p) != len(specs) {
		return
	}
	for i, s := range specs {
		if s.op.state != mString || s.path.state != mString {
			continue // rejected on every feasible path; keeps the accessor checks well-defined
		}
		op := p[i]
		vx.Assert(vx.EqStr(op.Kind(), string(s.opName)), "C11/kind-accessor")
		pth, perr := op.Path()
		vx.Assert(perr == nil && vx.EqStr(pth, string(s.path.val.Lit)), "C11/path-accessor")
		if s.from.state == mString {
			f, ferr := op.From()
			vx.Assert(ferr == nil && vx.EqStr(f, string(s.from.val.Lit)), "C11/from-accessor")
		}
		if s.value.state != mAbsent && s.value.state != mRenamed {
			v, verr := op.ValueInterface()
			vx.Assert(verr == nil && sameValue(v, s.value.val), "C11/value-accessor")
		}
	}
	vx.Reach("decode/end")
}

var c11Templates = []string{
	`[{"op":"add","path":"/a","value":[1,2]},{"op":"remove","path":"/b"}]`,
	`[{"op":"move","from":"/a","path":"/b"}]`,
	` [ { "op" : "test" , "path" : "" , "value" : { "k" : null } } ] `,
	// escape sequences in a member name, in path and in a value: a byte inserted after a backslash, or into the
	// four hex digits, makes an escape the grammar does not have
	"[{\"op\":\"add\",\"path\":\"/a\\nb\",\"v\\\\\":0,\"value\":\"x\\\"y\\" + "u00e9\"}]",
}

// H_DecodePatch_Template: a valid patch document with k unconstrained bytes inserted at any position: if the
// text is no longer well-formed JSON it must be rejected (nil Patch, error); if it still is well-formed and the
// inserted bytes are whitespace it must still be accepted.
func H_DecodePatch_Template() {
	t := []byte(c11Templates[vx.Choose("template", len(c11Templates))])
	k := vx.Param("k")
	pos := vx.Choose("pos", len(t)+1)
	x := vx.Bytes("x", k)
	var text []byte
	text = append(text, t[:pos]...)
	text = append(text, x...)
	text = append(text, t[pos:]...)
	vx.Note("patch", text)
	var p jsonpatch.Patch
	var err error
	panicked := vx.CatchPanic(func() { p, err = jsonpatch.DecodePatch(text) })
	vx.Assert(!panicked, "C04/decodepatch-no-panic")
	vx.Assert(!panicked, "C11/decodepatch-returns")
	if panicked {
		return
	}
	if !refValid(text) {
		vx.Assert(err != nil && p == nil, "C11/malformed-rejected")
		vx.Reach("decode/template/malformed")
		return
	}
	allWS := true
	for _, b := range x {
		if !isWS(b) {
			allWS = false
		}
	}
	orig, _ := parseJSON(t)
	now, okNow := parseJSON(text)
	if allWS && okNow && refEqualOrdered(orig, now) {
		// insignificant whitespace: the document denotes the same patch
		vx.Assert(err == nil && p != nil, "C11/whitespace-anywhere-accepted")
		vx.Reach("decode/template/whitespace")
	}
	vx.Reach("decode/template/end")
}
