package zzverif

// Fully symbolic byte strings at every []byte parameter of the exported entry
// points (C04: no panic; C16: the public gates accept exactly well-formed JSON
// of the right shape; C06: Equal is false on malformed input).
// Shared by the v5 module and the legacy root package (API common to both).

import (
	jsonpatch "github.com/evanphx/json-patch/v5"
	"github.com/evanphx/json-patch/v5/zzverif/vx"
)

var companionDocs = []string{`{"a":1}`, `[1,null]`, `{}`, `null`, `"s"`, `{"a":{"b":null}}`, " null\n", " [ ] "}

var companionPatches = []string{
	`[]`,
	`[{"op":"add","path":"/a","value":1}]`,
	`[{"op":"test","path":"","value":null}]`,
	`[{"op":"remove","path":"/0"}]`,
	`[{"op":"copy","from":"","path":"/a"}]`,
	`[{"op":"replace","path":"","value":null},{"op":"add","path":"/-","value":1}]`,
	`[{"op":"move","from":"/a","path":"/b"}]`,
	`[{"op":"test","path":""}]`,
	`[{"op":"replace","path":"","value":null},{"op":"add","path":"/0/a","value":1}]`,
	`[{"op":"replace","path":"","value":null},{"op":"test","path":"","value":null},{"op":"copy","from":"","path":"/a/b"}]`,
}

func firstNonWS(b []byte) (byte, bool) {
	for _, c := range b {
		if !isWS(c) {
			return c, true
		}
	}
	return 0, false
}

// H_Bytes_Equal: one side n unconstrained bytes, the other from the companion list (or also symbolic, m bytes).
func H_Bytes_Equal() {
	n := vx.Param("n")
	a := vx.Bytes("a", n)
	var b []byte
	m := vx.Param("m")
	if m >= 0 {
		b = vx.Bytes("b", m)
	} else {
		b = []byte(companionDocs[vx.Choose("b", len(companionDocs))])
	}
	vx.Note("a", a)
	vx.Note("b", b)
	var r1, r2, r3 bool
	panicked := vx.CatchPanic(func() {
		r1 = jsonpatch.Equal(a, b)
		r2 = jsonpatch.Equal(b, a)
		r3 = jsonpatch.Equal(a, append([]byte(nil), a...))
	})
	vx.Assert(!panicked, "C04/equal-any-bytes-no-panic")
	if panicked {
		vx.Note("panic", []byte(vx.PanicMsg()))
		vx.Reach("bytes/equal/panicked")
		return
	}
	va, vb := refValid(a), refValid(b)
	// a text compared with itself: equal exactly when it is well-formed
	vx.Assert(r3 == va, "C06/reflexive-iff-wellformed")
	vx.Assert(va || !r3, "C16/equal-rejects-malformed")
	if !va || !vb {
		vx.Assert(!r1 && !r2, "C06/malformed-is-unequal")
		vx.Assert(!r1 && !r2, "C16/equal-rejects-malformed")
		vx.Reach("bytes/equal/malformed")
		return
	}
	ta, oka := parseJSON(a)
	tb, okb := parseJSON(b)
	if oka && okb && validUTF8(a) && validUTF8(b) {
		// short well-formed texts in valid UTF-8: the structural verdict is known as well
		// (texts that are not UTF-8 are accepted by the scanner but their strings have no defined value)
		want := refEqual(ta, tb)
		if !numbersMayDiffer(ta, tb) {
			vx.Assert(r1 == want, "C06/short-texts-structural")
			vx.Assert(r2 == want, "C06/short-texts-symmetric")
		}
	}
	vx.Reach("bytes/equal/wellformed")
}

// numbersMayDiffer: both trees contain numbers (numerically equal spellings are outside C06's domain).
func numbersMayDiffer(a, b *JV) bool {
	return hasNum(a) && hasNum(b)
}

func hasNum(v *JV) bool {
	if v.K == JNum {
		return true
	}
	for _, k := range v.Kids {
		if hasNum(k) {
			return true
		}
	}
	return false
}

// H_Bytes_Merge: MergePatch / MergeMergePatches / CreateMergePatch with one symbolic argument.
func H_Bytes_Merge() {
	n := vx.Param("n")
	s := vx.Bytes("s", n)
	other := []byte(companionDocs[vx.Choose("other", len(companionDocs))])
	symFirst := vx.Choose("symfirst", 2) == 0
	a, b := s, other
	if !symFirst {
		a, b = other, s
	}
	vx.Note("a", a)
	vx.Note("b", b)
	valid := refValid(s)
	fn := vx.Choose("fn", 3)
	var out []byte
	var err error
	panicked := vx.CatchPanic(func() {
		switch fn {
		case 0:
			out, err = jsonpatch.MergePatch(a, b)
		case 1:
			out, err = jsonpatch.MergeMergePatches(a, b)
		case 2:
			out, err = jsonpatch.CreateMergePatch(a, b)
		}
	})
	vx.Assert(!panicked, "C04/merge-any-bytes-no-panic")
	if panicked {
		vx.Note("panic", []byte(vx.PanicMsg()))
		vx.Reach("bytes/merge/panicked")
		return
	}
	if !valid {
		vx.Assert(err != nil, "C16/merge-rejects-malformed")
		vx.Reach("bytes/merge/malformed")
		return
	}
	if fn < 2 {
		// MergePatch and MergeMergePatches accept every pair of well-formed texts
		// (a null document is outside the stated domain: the library rejects it)
		if da, ok := parseJSON(a); ok && da.K == JNull {
			vx.Reach("bytes/merge/null-document-outside")
			return
		}
		vx.Assert(err == nil, "C16/merge-accepts-wellformed")
		if err == nil {
			vx.Assert(refValid(out), "C15/merge-output-wellformed")
		}
	} else if err == nil {
		vx.Assert(refValid(out), "C15/create-output-wellformed")
	}
	vx.Reach("bytes/merge/wellformed")
}

// H_Bytes_Decode: DecodePatch on n unconstrained bytes, then the accessors and Apply on whatever was accepted.
func H_Bytes_Decode() {
	n := vx.Param("n")
	s := vx.Bytes("s", n)
	vx.Note("patch", s)
	doc := []byte(companionDocs[vx.Choose("doc", 3)])
	var p jsonpatch.Patch
	var err error
	panicked := vx.CatchPanic(func() {
		p, err = jsonpatch.DecodePatch(s)
		if err != nil {
			return
		}
		for _, op := range p {
			op.Kind()
			op.Path()
			op.From()
			op.ValueInterface()
		}
		p.Apply(doc)
		p.ApplyIndent(doc, " ")
	})
	vx.Assert(!panicked, "C04/decode-any-bytes-no-panic")
	if panicked {
		vx.Note("panic", []byte(vx.PanicMsg()))
		vx.Reach("bytes/decode/panicked")
		return
	}
	if !refValid(s) {
		vx.Assert(err != nil, "C16/decodepatch-rejects-malformed")
		vx.Assert(err != nil && p == nil, "C11/malformed-rejected")
		vx.Reach("bytes/decode/malformed")
		return
	}
	c, _ := firstNonWS(s)
	if c != '[' && c != 'n' {
		vx.Assert(err != nil && p == nil, "C11/non-array-root-rejected")
	}
	if t, ok := parseJSON(s); ok && t.K == JArr {
		if len(t.Kids) == 0 {
			// the empty patch, with any surrounding whitespace
			vx.Assert(err == nil && p != nil, "C11/empty-array-accepted")
			vx.Assert(err == nil, "C16/decodepatch-accepts-wellformed")
		} else {
			allObj := true
			for _, k := range t.Kids {
				if k.K != JObj {
					allObj = false
				}
			}
			if !allObj {
				vx.Assert(err != nil && p == nil, "C11/non-object-element-rejected")
			}
		}
	}
	vx.Reach("bytes/decode/wellformed")
}

// H_Bytes_ApplyDoc: Apply with n unconstrained document bytes and a companion patch.
func H_Bytes_ApplyDoc() {
	n := vx.Param("n")
	s := vx.Bytes("s", n)
	pi := vx.Choose("patch", len(companionPatches))
	pt := []byte(companionPatches[pi])
	vx.Note("doc", s)
	vx.Note("patch", pt)
	var out []byte
	var err, derr error
	indent := vx.Choose("indent", 2) == 1
	panicked := vx.CatchPanic(func() {
		var p jsonpatch.Patch
		p, derr = jsonpatch.DecodePatch(pt)
		if derr != nil {
			return
		}
		if indent {
			out, err = p.ApplyIndent(s, "\t")
		} else {
			out, err = p.Apply(s)
		}
	})
	vx.Assert(!panicked, "C04/apply-any-doc-bytes-no-panic")
	if panicked {
		vx.Note("panic", []byte(vx.PanicMsg()))
		vx.Reach("bytes/applydoc/panicked")
		return
	}
	vx.Assert(derr == nil, "C11/companion-patch-accepted")
	if derr != nil {
		return
	}
	if !refValid(s) {
		if n == 0 {
			// Apply("") returns "" and nil: pinned by the repository's own Cases[0] (known finding)
			vx.AssertKnown(err != nil, "C16/apply-rejects-malformed-doc", "KF-empty-doc")
			vx.AssertKnown(err != nil, "C15/apply-empty-doc-no-output", "KF-empty-doc")
		} else {
			vx.Assert(err != nil, "C16/apply-rejects-malformed-doc")
		}
		vx.Reach("bytes/applydoc/malformed")
		return
	}
	c, _ := firstNonWS(s)
	if pi == 0 && (c == '{' || c == '[') {
		// the empty patch applies to every well-formed object/array document, with or without surrounding whitespace
		vx.Assert(err == nil, "C16/apply-accepts-wellformed-doc")
		if err == nil {
			vx.Assert(refValid(out), "C15/apply-output-wellformed")
		}
	}
	if err == nil {
		vx.Assert(len(out) > 0 && refValid(out), "C15/apply-any-output-wellformed")
	}
	vx.Reach("bytes/applydoc/wellformed")
}

// H_Bytes_InString: k unconstrained bytes INSIDE a string literal (member value, member name, pointer, operation
// value) of otherwise well-formed arguments, handed to every entry point: never a panic. Reaches the string
// decoder with malformed UTF-8, stray quotes and escapes well beyond the fully symbolic length bound.
func H_Bytes_InString() {
	k := vx.Param("k")
	x := vx.Bytes("x", k)
	if vx.ParamOr("hi", 0) == 1 {
		// only non-ASCII bytes: every well-formed and malformed UTF-8 sequence of k bytes
		for _, b := range x {
			vx.Assume(b >= 0x80)
		}
	}
	wrap := func(pre, post string) []byte { return append(append([]byte(pre), x...), post...) }
	var doc, patch []byte
	where := vx.Choose("where", 4)
	switch where {
	case 0:
		doc, patch = wrap(`{"a":"`, `","b":1}`), []byte(`[{"op":"copy","from":"/a","path":"/c"},{"op":"test","path":"/b","value":1}]`)
	case 1:
		doc, patch = wrap(`{"`, `":1,"b":[2]}`), []byte(`[{"op":"add","path":"/b/-","value":3}]`)
	case 2:
		doc, patch = []byte(`{"a":1}`), wrap(`[{"op":"remove","path":"/`, `"}]`)
	case 3:
		doc, patch = []byte(`{"a":1}`), wrap(`[{"op":"add","path":"/b","value":{"k":"`, `"}}]`)
	}
	vx.Note("doc", doc)
	vx.Note("patch", patch)
	panicked := vx.CatchPanic(func() {
		if p, err := jsonpatch.DecodePatch(patch); err == nil {
			for _, op := range p {
				op.Kind()
				op.Path()
				op.From()
				op.ValueInterface()
			}
			p.Apply(doc)
		}
		jsonpatch.Equal(doc, doc)
		jsonpatch.MergePatch(doc, doc)
		jsonpatch.MergeMergePatches(doc, doc)
		jsonpatch.CreateMergePatch(doc, []byte(`{"a":2}`))
		jsonpatch.CreateMergePatch([]byte(`{"a":2}`), doc)
	})
	vx.Assert(!panicked, "C04/bytes-inside-string-no-panic")
	if panicked {
		vx.Note("panic", []byte(vx.PanicMsg()))
		vx.Reach("bytes/instring/panicked")
	}
	vx.Reach("bytes/instring/end")
}
