package zzverif

import (
	"errors"

	jsonpatch "github.com/evanphx/json-patch/v5"
	"github.com/evanphx/json-patch/v5/zzverif/vx"
)

// classify maps an Apply error to the classes the properties speak about.
func errIsTest(err error) bool    { return errors.Is(err, jsonpatch.ErrTestFailed) }
func errIsMissing(err error) bool { return errors.Is(err, jsonpatch.ErrMissing) }
func errIsCopy(err error) bool {
	var ce *jsonpatch.AccumulatedCopySizeError
	return errors.As(err, &ce)
}

type applyOut struct {
	out      []byte
	err      error
	decErr   error
	panicked bool
}

func runApply(docB, patchB []byte, o *jsonpatch.ApplyOptions) applyOut {
	var r applyOut
	r.panicked = vx.CatchPanic(func() {
		p, e := jsonpatch.DecodePatch(patchB)
		if e != nil {
			r.decErr = e
			return
		}
		r.out, r.err = p.ApplyWithOptions(docB, o)
	})
	return r
}

// applyCore: one document shape, K operations, compared with refApply6902.
// Serves C01 (result), C05 (order and literals), C08 (error classes), C15 (output well-formed), C04 (no panic).
func applyCore(K, maxTok, tokKinds int) {
	shape := vx.Choose("shape", nDocShapes)
	doc := docShape(shape, "d.")
	ops := make([]Op, K)
	for i := range ops {
		ops[i] = genOp("op"+itoa(i), 0, maxTok, tokKinds)
	}
	neg := vx.Bool("negidx")
	docB := render(doc)
	patchB := renderPatch(ops)
	vx.Note("doc", docB)
	vx.Note("patch", patchB)

	o := jsonpatch.NewApplyOptions()
	o.SupportNegativeIndices = neg
	r := runApply(docB, patchB, o)
	vx.Assert(!r.panicked, "C04/apply-no-panic")
	if r.panicked {
		vx.Reach("apply/panicked")
		return
	}
	vx.Assert(r.decErr == nil, "C11/generated-patch-accepted")
	if r.decErr != nil {
		return
	}
	ref := refApply(doc, ops, RefOpts{NegIdx: neg}, 0, nil)
	if ref.Outside {
		vx.Reach("apply/outside-domain")
		return
	}
	if ref.Err != eNone {
		vx.Reach("apply/ref-fails")
		vx.Assert(r.err != nil, "C01/fails-when-rfc-fails")
		vx.Assert(r.err != nil, "C08/error-returned")
		if r.err == nil {
			return
		}
		vx.Assert(r.out == nil, "C08/no-document-on-failure")
		vx.Assert(errIsTest(r.err) == (ref.Err == eTestFailed), "C08/is-test-failed-iff")
		vx.Assert(!errIsCopy(r.err), "C08/copy-error-only-from-limit")
		if ref.Err == eMissing {
			vx.Assert(errIsMissing(r.err), "C08/missing-is-errmissing")
		}
		return
	}
	vx.Reach("apply/ref-succeeds")
	vx.Assert(r.err == nil, "C01/succeeds-when-rfc-succeeds")
	vx.Assert(r.err == nil, "C08/no-error-when-all-ops-apply")
	if r.err != nil {
		return
	}
	got, ok := parseJSON(r.out)
	vx.Assert(ok, "C15/apply-output-parses")
	vx.Assert(ok, "C01/output-parses")
	if !ok {
		return
	}
	vx.Assert(refEqual(got, ref.Doc), "C01/result-equals-rfc")
	vx.Assert(refEqualOrdered(got, ref.Doc), "C05/order-and-literals")
	vx.Reach("apply/end")
}

func H_Apply_K1() { applyCore(1, vx.Param("maxtok"), vx.Param("tokkinds")) }
func H_Apply_K2() { applyCore(2, vx.Param("maxtok"), vx.Param("tokkinds")) }
func H_Apply_K3() { applyCore(3, vx.Param("maxtok"), vx.Param("tokkinds")) }
