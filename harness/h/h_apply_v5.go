package zzverif

import (
	"errors"

	jsonpatch "github.com/evanphx/json-patch/v5"
	"github.com/evanphx/json-patch/v5/zzverif/vx"
)

// classify maps an Apply error to the classes the properties speak about.
func errIsTest(err error) bool    { return errors.Is(err, jsonpatch.ErrTestFailed) }
func errIsMissing(err error) bool { return errors.Is(err, jsonpatch.ErrMissing) }
func errIsCopy(err error) bool {
	var ce *jsonpatch.AccumulatedCopySizeError
	return errors.As(err, &ce)
}

type applyOut struct {
	out      []byte
	err      error
	decErr   error
	panicked bool
}

func runApply(docB, patchB []byte, o *jsonpatch.ApplyOptions) applyOut {
	var r applyOut
	r.panicked = vx.CatchPanic(func() {
		p, e := jsonpatch.DecodePatch(patchB)
		if e != nil {
			r.decErr = e
			return
		}
		r.out, r.err = p.ApplyWithOptions(docB, o)
	})
	return r
}

// applyCore: one document shape, K operations, compared with refApply6902.
// Serves C01 (result), C05 (order and literals), C08 (error classes), C15 (output well-formed), C04 (no panic).
// Parameters: k (operations), maxtok, tokmask, shapemask, nvals, kmask0.. (operation kinds per position).
func applyCore() {
	K := vx.Param("k")
	shape := chooseMask("shape", vx.Param("shapemask"), nDocShapes)
	doc := docShape(shape, "d.")
	ops := make([]Op, K)
	for i := range ops {
		mx := vx.ParamOr("maxtok"+itoa(i), vx.Param("maxtok"))
		mn := vx.ParamOr("mintok"+itoa(i), 0)
		ops[i] = genOp("op"+itoa(i), vx.Param("kmask"+itoa(i)), mn, mx, vx.ParamOr("tokmask"+itoa(i), vx.Param("tokmask")), vx.Param("nvals"))
	}
	checkApplyOpts(doc, ops, vx.ParamOr("optmask", 0))
}

// idxCore: array-bearing shapes; the last token of every pointer is a 2- or 3-byte
// symbolic token (two-digit indices, "-1", "-10", "+1", "01" …).
func idxCore() {
	tb := vx.Param("tokbytes")
	shapes := []int{5, 7, 4, 8, 11, 6}
	shape := shapes[vx.Choose("shape", vx.Param("nshapes"))]
	doc := docShape(shape, "d.")
	mkPtr := func(name string) Ptr {
		p := Ptr{}
		switch shape {
		case 4:
			p.Toks = append(p.Toks, Tok{Raw: []byte("a"), Name: []byte("a")})
		case 11:
			p.Toks = append(p.Toks, Tok{Raw: []byte("a"), Name: []byte("a")}, Tok{Raw: []byte("0"), Name: []byte("0")})
		}
		b := make([]byte, tb)
		for k := range b {
			b[k] = symTokByte(name + "." + itoa(k))
		}
		p.Toks = append(p.Toks, Tok{Raw: b, Name: b})
		return p
	}
	op := Op{Kind: vx.Choose("op0.kind", 6)}
	op.Path = mkPtr("op0.path")
	switch op.Kind {
	case OpAdd, OpReplace, OpTest:
		op.Val = valShape(vx.Choose("op0.val", 2), "op0.")
		op.HasVal = true
	case OpMove, OpCopy:
		if vx.Choose("op0.fromsym", 2) == 0 {
			op.From = mkPtr("op0.from")
			op.Path = Ptr{Toks: append(append([]Tok(nil), op.Path.Toks[:len(op.Path.Toks)-1]...), Tok{Raw: []byte("0"), Name: []byte("0")})}
		} else {
			op.From = Ptr{Toks: append(append([]Tok(nil), op.Path.Toks[:len(op.Path.Toks)-1]...), Tok{Raw: []byte("0"), Name: []byte("0")})}
		}
	}
	checkApply(doc, []Op{op})
}

func checkApply(doc *JV, ops []Op) { checkApplyOpts(doc, ops, 0) }

// option bits of optmask: 1 AllowMissingPathOnRemove, 2 EnsurePathExistsOnAdd, 4 EscapeHTML, 8 AccumulatedCopySizeLimit symbolic,
// 16 package-level AccumulatedCopySizeLimit symbolic (read by NewApplyOptions) with an optional per-call override
// (SupportNegativeIndices is always symbolic). Options not selected keep the library defaults.
func checkApplyOpts(doc *JV, ops []Op, optmask int) {
	neg := vx.Bool("negidx")
	docB := render(doc)
	patchB := renderPatch(ops)
	if vx.ParamOr("pad", 0) == 1 {
		// the same document and operation values with insignificant whitespace everywhere
		docB = renderWS(doc)
		padded := make([]Op, len(ops))
		copy(padded, ops)
		patchB = renderPatchWS(padded)
	}
	vx.Note("doc", docB)
	vx.Note("patch", patchB)

	if optmask&16 != 0 {
		// package defaults are read by NewApplyOptions: a symbolic package-level limit, optionally overridden per call
		jsonpatch.AccumulatedCopySizeLimit = vx.Int64("pkg.limit")
	}
	o := jsonpatch.NewApplyOptions()
	o.SupportNegativeIndices = neg
	ro := RefOpts{NegIdx: neg, EmptyTok: vx.ParamOr("emptytok", 0) == 1}
	escape := true
	var limit int64
	if optmask&1 != 0 {
		o.AllowMissingPathOnRemove = vx.Choose("opt.allowmissing", 2) == 1
		ro.AllowMissing = o.AllowMissingPathOnRemove
	}
	if optmask&2 != 0 {
		o.EnsurePathExistsOnAdd = vx.Choose("opt.ensure", 2) == 1
		ro.Ensure = o.EnsurePathExistsOnAdd
	}
	if optmask&4 != 0 {
		escape = vx.Choose("opt.escape", 2) == 1
		o.EscapeHTML = escape
	}
	var sizeOf func(*JV) int
	if optmask&16 != 0 {
		vx.Assert(o.AccumulatedCopySizeLimit == jsonpatch.AccumulatedCopySizeLimit, "C12/options-start-from-package-default")
		limit = o.AccumulatedCopySizeLimit
		sizeOf = func(v *JV) int { return escapedSize(v, escape) }
		if vx.Choose("opt.override", 2) == 1 {
			limit = vx.Int64("opt.limit")
			o.AccumulatedCopySizeLimit = limit
		}
	} else if optmask&8 != 0 {
		limit = vx.Int64("opt.limit")
		o.AccumulatedCopySizeLimit = limit
		sizeOf = func(v *JV) int { return escapedSize(v, escape) }
	}
	r := runApply(docB, patchB, o)
	vx.Assert(!r.panicked, "C04/apply-no-panic")
	if r.panicked {
		vx.Reach("apply/panicked")
		return
	}
	vx.Assert(r.decErr == nil, "C11/generated-patch-accepted")
	if r.decErr != nil {
		return
	}
	dup := doc.hasDupKeys()
	refDoc := doc
	if dup {
		refDoc = dedupLast(doc)
	}
	ref := refApply(refDoc, ops, ro, limit, sizeOf)
	if ro.AllowMissing && (ref.NegOff || ref.NaNOnArray) {
		vx.Reach("apply/outside-domain")
		return
	}
	if ref.Outside {
		vx.Reach("apply/outside-domain")
		return
	}
	if ref.Err != eNone {
		vx.Reach("apply/ref-fails")
		if !dup {
			vx.Assert(r.err != nil, "C01/fails-when-rfc-fails")
		}
		vx.Assert(r.err != nil, "C08/error-returned")
		vx.Assert(r.err != nil, "C13/fails-when-reference-fails")
		if r.err == nil {
			return
		}
		vx.Assert(r.out == nil, "C08/no-document-on-failure")
		vx.Assert(errIsTest(r.err) == (ref.Err == eTestFailed), "C08/is-test-failed-iff")
		vx.Assert(errIsCopy(r.err) == (ref.Err == eCopyLimit), "C08/copy-error-iff-limit")
		vx.Assert(errIsCopy(r.err) == (ref.Err == eCopyLimit), "C12/limit-error-iff-total-exceeds")
		vx.Assert(r.out == nil, "C12/no-document-when-stopped")
		if ref.Err == eCopyLimit {
			vx.Reach("apply/copy-limit-hit")
		}
		if ref.Err == eMissing {
			vx.Assert(errIsMissing(r.err), "C08/missing-is-errmissing")
		}
		return
	}
	vx.Reach("apply/ref-succeeds")
	if dup {
		// repeated member names: only success and the error classes are compared
		vx.Assert(r.err == nil, "C08/no-error-when-all-ops-apply")
		vx.Reach("apply/end")
		return
	}
	vx.Assert(r.err == nil, "C01/succeeds-when-rfc-succeeds")
	vx.Assert(r.err == nil, "C08/no-error-when-all-ops-apply")
	vx.Assert(r.err == nil, "C12/no-error-within-limit")
	vx.Assert(r.err == nil, "C13/outcome-equals-reference")
	vx.Assert(r.err == nil, "C14/ensure-add-succeeds")
	if r.err != nil {
		return
	}
	got, ok := parseJSON(r.out)
	vx.Assert(ok, "C15/apply-output-parses")
	vx.Assert(ok, "C01/output-parses")
	if !ok {
		return
	}
	vx.Assert(refEqual(got, ref.Doc), "C01/result-equals-rfc")
	vx.Assert(refEqual(got, ref.Doc), "C13/result-equals-reference")
	vx.Assert(refEqualOrdered(got, ref.Doc), "C14/result-equals-reference-ensure")
	vx.Assert(refEqualOrdered(got, ref.Doc), "C05/order-and-literals")
	if vx.ParamOr("stable", 0) == 1 {
		// the returned document must stay what it is while the caller goes on using the library
		snap := append([]byte(nil), r.out...)
		runApply([]byte(`{"other":"document","n":[1,2,3]}`), []byte(`[{"op":"add","path":"/x","value":"y"}]`), jsonpatch.NewApplyOptions())
		vx.Assert(vx.EqBytes(r.out, snap), "C05/result-not-overwritten-by-a-later-call")
	}
	vx.Reach("apply/end")
}

func H_Apply()     { applyCore() }
func H_Apply_Idx() { idxCore() }

// H_AllowMissing_Meta (C13), both sides real code: P with AllowMissingPathOnRemove on must have the outcome of
// P minus the skipped removes with the option off. The reference evaluator only classifies which removes are skippable.
func H_AllowMissing_Meta() {
	K := vx.Param("k")
	shape := chooseMask("shape", vx.Param("shapemask"), nDocShapes)
	doc := docShape(shape, "d.")
	ops := make([]Op, K)
	nrem := 0
	for i := range ops {
		ops[i] = genOp("op"+itoa(i), 63, 0, vx.Param("maxtok"), vx.Param("tokmask"), vx.Param("nvals"))
		if ops[i].Kind == OpRemove {
			nrem++
		}
	}
	if nrem == 0 {
		return
	}
	neg := vx.Bool("negidx")
	ref := refApply(doc, ops, RefOpts{NegIdx: neg, AllowMissing: true}, 0, nil)
	if ref.Outside || ref.NegOff || ref.NaNOnArray {
		vx.Reach("meta/outside-domain")
		return
	}
	var kept []Op
	skipped := 0
	for i, op := range ops {
		if ref.Skipped[i] {
			skipped++
			continue
		}
		kept = append(kept, op)
	}
	docB := render(doc)
	pOn, pOff := renderPatch(ops), renderPatch(kept)
	vx.Note("doc", docB)
	vx.Note("patch", pOn)
	vx.Note("patch-without-skipped", pOff)
	on := jsonpatch.NewApplyOptions()
	on.SupportNegativeIndices = neg
	on.AllowMissingPathOnRemove = true
	off := jsonpatch.NewApplyOptions()
	off.SupportNegativeIndices = neg
	a := runApply(docB, pOn, on)
	b := runApply(docB, pOff, off)
	vx.Assert(!a.panicked && !b.panicked, "C04/apply-no-panic")
	if a.panicked || b.panicked || a.decErr != nil || b.decErr != nil {
		return
	}
	vx.Assert((a.err == nil) == (b.err == nil), "C13/meta-same-success")
	if (a.err == nil) != (b.err == nil) {
		return
	}
	if a.err != nil {
		vx.Assert(errIsTest(a.err) == errIsTest(b.err) && errIsMissing(a.err) == errIsMissing(b.err), "C13/meta-same-error-class")
		vx.Reach("meta/both-fail")
	} else {
		vx.Assert(vx.EqBytes(a.out, b.out), "C13/meta-same-document")
	}
	if skipped > 0 {
		vx.Reach("meta/skipped-some")
	}
	vx.Reach("meta/end")
}

// H_Ensure_Same (C14): an add that succeeds without EnsurePathExistsOnAdd gives byte-identical output with it.
func H_Ensure_Same() {
	shape := chooseMask("shape", vx.Param("shapemask"), nDocShapes)
	doc := docShape(shape, "d.")
	op := genOp("op0", 1, 1, vx.Param("maxtok"), vx.Param("tokmask"), vx.Param("nvals"))
	neg := vx.Bool("negidx")
	docB := render(doc)
	pB := renderPatch([]Op{op})
	vx.Note("doc", docB)
	vx.Note("patch", pB)
	off := jsonpatch.NewApplyOptions()
	off.SupportNegativeIndices = neg
	on := jsonpatch.NewApplyOptions()
	on.SupportNegativeIndices = neg
	on.EnsurePathExistsOnAdd = true
	a := runApply(docB, pB, off)
	if a.panicked || a.decErr != nil || a.err != nil {
		return
	}
	vx.Reach("ensure/plain-add-succeeds")
	b := runApply(docB, pB, on)
	vx.Assert(!b.panicked, "C04/apply-no-panic")
	if b.panicked {
		return
	}
	vx.Assert(b.err == nil, "C14/plain-add-still-succeeds")
	if b.err == nil {
		vx.Assert(vx.EqBytes(a.out, b.out), "C14/same-bytes-with-and-without-option")
	}
}

// H_Options_Reuse (C12, C09): one *ApplyOptions value reused for several ApplyWithOptions calls. A call that is
// stopped (failing test, missing path, or the limit itself) after some copies must leave nothing behind: the next
// call with the same options behaves as with fresh options.
func H_Options_Reuse() {
	doc := docShape(13, "d.")
	docB := render(doc)
	tok := func(s string) Tok { return Tok{Raw: []byte(s), Name: []byte(s)} }
	cp := Op{Kind: OpCopy, From: Ptr{Toks: []Tok{tok("a")}}, Path: Ptr{Toks: []Tok{tok("z")}}}
	var first []Op
	switch vx.Choose("first", 4) {
	case 0: // copy then a failing test
		first = []Op{cp, {Kind: OpTest, Path: Ptr{Toks: []Tok{tok("b")}}, Val: jStrS("no"), HasVal: true}}
	case 1: // copy then a missing path
		first = []Op{cp, {Kind: OpRemove, Path: Ptr{Toks: []Tok{tok("absent")}}}}
	case 2: // copies until the limit stops the call (or not)
		first = []Op{cp, cp, cp}
	case 3: // a successful call
		first = []Op{cp}
	}
	second := []Op{cp}
	if vx.Choose("second", 2) == 1 {
		second = []Op{cp, cp}
	}
	limit := vx.Int64("opt.limit")
	escape := vx.Choose("opt.escape", 2) == 1
	o := jsonpatch.NewApplyOptions()
	o.AccumulatedCopySizeLimit = limit
	o.EscapeHTML = escape
	p1, p2 := renderPatch(first), renderPatch(second)
	vx.Note("doc", docB)
	vx.Note("first", p1)
	vx.Note("second", p2)
	a := runApply(docB, p1, o)
	b := runApply(docB, p2, o)
	vx.Assert(!a.panicked && !b.panicked, "C04/apply-no-panic")
	if a.panicked || b.panicked || a.decErr != nil || b.decErr != nil {
		return
	}
	sizeOf := func(v *JV) int { return escapedSize(v, escape) }
	ref := refApply(doc, second, RefOpts{}, limit, sizeOf)
	if ref.Outside {
		return
	}
	if ref.Err == eCopyLimit {
		vx.Assert(b.err != nil && errIsCopy(b.err), "C12/reused-options-limit-error-iff-total-exceeds")
		vx.Reach("reuse/limit-hit")
	} else {
		vx.Assert(b.err == nil, "C12/reused-options-no-error-within-limit")
		vx.Assert(b.err == nil, "C09/reused-options-same-outcome")
	}
	vx.Assert(o.AccumulatedCopySizeLimit == limit && o.EscapeHTML == escape, "C09/options-not-written")
	vx.Reach("reuse/end")
}

// H_PackageDefault_Sequence (C12): the package-level default is read by every Apply / ApplyIndent call, also
// when it is changed between calls.
func H_PackageDefault_Sequence() {
	doc := docShape(13, "d.")
	docB := render(doc)
	tok := func(s string) Tok { return Tok{Raw: []byte(s), Name: []byte(s)} }
	cp := Op{Kind: OpCopy, From: Ptr{Toks: []Tok{tok("a")}}, Path: Ptr{Toks: []Tok{tok("z")}}}
	pB := renderPatch([]Op{cp})
	first := vx.Int64("pkg.first")
	second := vx.Int64("pkg.second")
	indent := vx.Choose("indent", 2) == 1
	vx.Note("doc", docB)
	var out []byte
	var err error
	panicked := vx.CatchPanic(func() {
		p, derr := jsonpatch.DecodePatch(pB)
		if derr != nil {
			return
		}
		jsonpatch.AccumulatedCopySizeLimit = first
		p.Apply(docB)
		jsonpatch.AccumulatedCopySizeLimit = second
		if indent {
			out, err = p.ApplyIndent(docB, " ")
		} else {
			out, err = p.Apply(docB)
		}
	})
	vx.Assert(!panicked, "C04/apply-no-panic")
	vx.Assert(!panicked, "C01/apply-returns")
	vx.Assert(!panicked, "C05/apply-returns")
	vx.Assert(!panicked, "C08/apply-returns")
	vx.Assert(!panicked, "C12/apply-returns")
	vx.Assert(!panicked, "C13/apply-returns")
	vx.Assert(!panicked, "C14/apply-returns")
	vx.Assert(!panicked, "C15/apply-returns")
	if panicked {
		return
	}
	ref := refApply(doc, []Op{cp}, RefOpts{NegIdx: true}, second, func(v *JV) int { return escapedSize(v, true) })
	if ref.Outside {
		return
	}
	if ref.Err == eCopyLimit {
		vx.Assert(err != nil && errIsCopy(err) && out == nil, "C12/package-default-read-on-every-call")
		vx.Reach("pkgseq/limit-hit")
	} else {
		vx.Assert(err == nil, "C12/package-default-read-on-every-call")
	}
	vx.Reach("pkgseq/end")
}
