package zzverif

import (
	"errors"

	jsonpatch "github.com/evanphx/json-patch/v5"
	"github.com/evanphx/json-patch/v5/zzverif/vx"
)

// classify maps an Apply error to the classes the properties speak about.
func errIsTest(err error) bool    { return errors.Is(err, jsonpatch.ErrTestFailed) }
func errIsMissing(err error) bool { return errors.Is(err, jsonpatch.ErrMissing) }
func errIsCopy(err error) bool {
	var ce *jsonpatch.AccumulatedCopySizeError
	return errors.As(err, &ce)
}

type applyOut struct {
	out      []byte
	err      error
	decErr   error
	panicked bool
}

func runApply(docB, patchB []byte, o *jsonpatch.ApplyOptions) applyOut {
	var r applyOut
	r.panicked = vx.CatchPanic(func() {
		p, e := jsonpatch.DecodePatch(patchB)
		if e != nil {
			r.decErr = e
			return
		}
		r.out, r.err = p.ApplyWithOptions(docB, o)
	})
	return r
}

// applyCore: one document shape, K operations, compared with refApply6902.
// Serves C01 (result), C05 (order and literals), C08 (error classes), C15 (output well-formed), C04 (no panic).
// Parameters: k (operations), maxtok, tokmask, shapemask, nvals, kmask0.. (operation kinds per position).
func applyCore() {
	K := vx.Param("k")
	shape := chooseMask("shape", vx.Param("shapemask"), nDocShapes)
	doc := docShape(shape, "d.")
	ops := make([]Op, K)
	for i := range ops {
		mx := vx.ParamOr("maxtok"+itoa(i), vx.Param("maxtok"))
		mn := vx.ParamOr("mintok"+itoa(i), 0)
		ops[i] = genOp("op"+itoa(i), vx.Param("kmask"+itoa(i)), mn, mx, vx.Param("tokmask"), vx.Param("nvals"))
	}
	checkApply(doc, ops)
}

// idxCore: array-bearing shapes; the last token of every pointer is a 2- or 3-byte
// symbolic token (two-digit indices, "-1", "-10", "+1", "01" …).
func idxCore() {
	tb := vx.Param("tokbytes")
	shapes := []int{5, 7, 4, 8, 11, 6}
	shape := shapes[vx.Choose("shape", vx.Param("nshapes"))]
	doc := docShape(shape, "d.")
	mkPtr := func(name string) Ptr {
		p := Ptr{}
		switch shape {
		case 4:
			p.Toks = append(p.Toks, Tok{Raw: []byte("a"), Name: []byte("a")})
		case 11:
			p.Toks = append(p.Toks, Tok{Raw: []byte("a"), Name: []byte("a")}, Tok{Raw: []byte("0"), Name: []byte("0")})
		}
		b := make([]byte, tb)
		for k := range b {
			b[k] = symTokByte(name + "." + itoa(k))
		}
		p.Toks = append(p.Toks, Tok{Raw: b, Name: b})
		return p
	}
	op := Op{Kind: vx.Choose("op0.kind", 6)}
	op.Path = mkPtr("op0.path")
	switch op.Kind {
	case OpAdd, OpReplace, OpTest:
		op.Val = valShape(vx.Choose("op0.val", 2), "op0.")
		op.HasVal = true
	case OpMove, OpCopy:
		if vx.Choose("op0.fromsym", 2) == 0 {
			op.From = mkPtr("op0.from")
			op.Path = Ptr{Toks: append(append([]Tok(nil), op.Path.Toks[:len(op.Path.Toks)-1]...), Tok{Raw: []byte("0"), Name: []byte("0")})}
		} else {
			op.From = Ptr{Toks: append(append([]Tok(nil), op.Path.Toks[:len(op.Path.Toks)-1]...), Tok{Raw: []byte("0"), Name: []byte("0")})}
		}
	}
	checkApply(doc, []Op{op})
}

func checkApply(doc *JV, ops []Op) {
	neg := vx.Bool("negidx")
	docB := render(doc)
	patchB := renderPatch(ops)
	vx.Note("doc", docB)
	vx.Note("patch", patchB)

	o := jsonpatch.NewApplyOptions()
	o.SupportNegativeIndices = neg
	r := runApply(docB, patchB, o)
	vx.Assert(!r.panicked, "C04/apply-no-panic")
	if r.panicked {
		vx.Reach("apply/panicked")
		return
	}
	vx.Assert(r.decErr == nil, "C11/generated-patch-accepted")
	if r.decErr != nil {
		return
	}
	ref := refApply(doc, ops, RefOpts{NegIdx: neg}, 0, nil)
	if ref.Outside {
		vx.Reach("apply/outside-domain")
		return
	}
	if ref.Err != eNone {
		vx.Reach("apply/ref-fails")
		vx.Assert(r.err != nil, "C01/fails-when-rfc-fails")
		vx.Assert(r.err != nil, "C08/error-returned")
		if r.err == nil {
			return
		}
		vx.Assert(r.out == nil, "C08/no-document-on-failure")
		vx.Assert(errIsTest(r.err) == (ref.Err == eTestFailed), "C08/is-test-failed-iff")
		vx.Assert(!errIsCopy(r.err), "C08/copy-error-only-from-limit")
		if ref.Err == eMissing {
			vx.Assert(errIsMissing(r.err), "C08/missing-is-errmissing")
		}
		return
	}
	vx.Reach("apply/ref-succeeds")
	vx.Assert(r.err == nil, "C01/succeeds-when-rfc-succeeds")
	vx.Assert(r.err == nil, "C08/no-error-when-all-ops-apply")
	if r.err != nil {
		return
	}
	got, ok := parseJSON(r.out)
	vx.Assert(ok, "C15/apply-output-parses")
	vx.Assert(ok, "C01/output-parses")
	if !ok {
		return
	}
	vx.Assert(refEqual(got, ref.Doc), "C01/result-equals-rfc")
	vx.Assert(refEqualOrdered(got, ref.Doc), "C05/order-and-literals")
	vx.Reach("apply/end")
}

func H_Apply() { applyCore() }
func H_Apply_Idx() { idxCore() }
