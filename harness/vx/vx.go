// Package vx is the harness API. Under the symbolic executor (gosx) every
// function here is an intrinsic; the bodies below are the *native twin*: they
// read one concrete assignment (a replay file) so that a counterexample or a
// sample path can be re-run against the natively compiled library.
package vx

import (
	"encoding/json"
	"fmt"
	"os"
	"sort"
)

type replayFile struct {
	Harness string            `json:"harness"`
	Vars    map[string]uint64 `json:"vars"`
	Params  map[string]int    `json:"params"`
}

type Result struct {
	Harness    string            `json:"harness"`
	Failed     []string          `json:"failed"`
	Known      []string          `json:"known"`
	Reaches    []string          `json:"reaches"`
	Obs        map[string]string `json:"obs"`
	Panic      string            `json:"panic"`
	AssumeFail bool              `json:"assume_fail"`
	Missing    []string          `json:"missing"`
}

var (
	rp       replayFile
	res      = Result{Obs: map[string]string{}}
	seenVar  = map[string]int{}
	seenCh   = map[string]int{}
	seenObs  = map[string]int{}
	reachSet = map[string]bool{}
	lastMsg  string
)

type assumeFailed struct{}

// Load reads the replay file named by VX_REPLAY.
func Load() error {
	p := os.Getenv("VX_REPLAY")
	if p == "" {
		return fmt.Errorf("VX_REPLAY not set")
	}
	b, err := os.ReadFile(p)
	if err != nil {
		return err
	}
	rp = replayFile{}
	if err := json.Unmarshal(b, &rp); err != nil {
		return err
	}
	res = Result{Harness: rp.Harness, Obs: map[string]string{}}
	seenVar, seenCh, seenObs, reachSet = map[string]int{}, map[string]int{}, map[string]int{}, map[string]bool{}
	return nil
}

func HarnessName() string { return rp.Harness }

// Run executes f as a harness body and writes the result file named by VX_RESULT.
func Run(f func()) {
	func() {
		defer func() {
			if r := recover(); r != nil {
				if _, ok := r.(assumeFailed); ok {
					res.AssumeFail = true
					return
				}
				res.Panic = fmt.Sprint(r)
			}
		}()
		f()
	}()
	for k := range reachSet {
		res.Reaches = append(res.Reaches, k)
	}
	sort.Strings(res.Reaches)
	b, _ := json.MarshalIndent(res, "", " ")
	if p := os.Getenv("VX_RESULT"); p != "" {
		os.WriteFile(p, b, 0o644)
	} else {
		os.Stdout.Write(append(b, '\n'))
	}
}

func uniq(seen map[string]int, name string) string {
	seen[name]++
	if n := seen[name]; n > 1 {
		return fmt.Sprintf("%s#%d", name, n)
	}
	return name
}

func get(name string) uint64 {
	v, ok := rp.Vars[name]
	if !ok {
		res.Missing = append(res.Missing, name)
	}
	return v
}

func Byte(name string) byte   { return byte(get(uniq(seenVar, name))) }
func Bool(name string) bool   { return get(uniq(seenVar, name))&1 == 1 }
func Int(name string) int     { return int(get(uniq(seenVar, name))) }
func Int64(name string) int64 { return int64(get(uniq(seenVar, name))) }

func Bytes(name string, n int) []byte {
	b := make([]byte, n)
	for k := range b {
		b[k] = byte(get(uniq(seenVar, fmt.Sprintf("%s[%d]", name, k))))
	}
	return b
}

func Choose(name string, n int) int {
	v := int(get("choose:" + uniq(seenCh, name)))
	if v < 0 || v >= n {
		panic(assumeFailed{})
	}
	return v
}

func Assume(c bool) {
	if !c {
		panic(assumeFailed{})
	}
}

func Assert(c bool, id string) {
	if !c {
		res.Failed = append(res.Failed, id)
	}
}

func AssertKnown(c bool, id, kf string) {
	if !c {
		res.Known = append(res.Known, id+"|"+kf)
	}
}

func Reach(tag string) { reachSet[tag] = true }

func Observe(name string, b []byte)    { res.Obs[uniq(seenObs, name)] = string(b) }
func ObserveStr(name string, s string) { res.Obs[uniq(seenObs, name)] = s }
func Note(name string, b []byte)       {}

func Param(name string) int {
	v, ok := rp.Params[name]
	if !ok {
		panic("vx.Param: no parameter " + name)
	}
	return v
}

// IsSymbolic reports whether the harness runs under the symbolic executor (false in the native twin).
func IsSymbolic() bool { return false }

func ParamOr(name string, def int) int {
	if v, ok := rp.Params[name]; ok {
		return v
	}
	return def
}

// CatchPanic runs f and reports whether it panicked.
func CatchPanic(f func()) (panicked bool) {
	defer func() {
		if r := recover(); r != nil {
			if _, ok := r.(assumeFailed); ok {
				panic(r)
			}
			lastMsg = fmt.Sprint(r)
			panicked = true
		}
	}()
	f()
	return false
}

func PanicMsg() string { return lastMsg }

func ReadOnly(b []byte, tag string) {}
func Writable(b []byte)             {}

func And(a, b bool) bool     { return a && b }
func Or(a, b bool) bool      { return a || b }
func Not(a bool) bool        { return !a }
func Implies(a, b bool) bool { return !a || b }

// B2I converts a condition to 0/1 without branching (one ite term under the symbolic executor).
func B2I(c bool) int {
	if c {
		return 1
	}
	return 0
}

func EqBytes(a, b []byte) bool { return string(a) == string(b) }
func EqStr(a, b string) bool   { return a == b }

// SymIntSlice is only meaningful under the symbolic executor.
func SymIntSlice(name string) []int {
	n := int(get(uniq(seenVar, name+".len")))
	get(uniq(seenVar, name+".cap"))
	if n < 0 || n > 1<<20 {
		panic(assumeFailed{})
	}
	return make([]int, n)
}
