#!/bin/bash
# usage: tools/mutant.sh verify <id> <patch.diff> <demo-file> <demo-rel-dir>   — verify in a scratch worktree, store under seeded/<id>/
#        tools/mutant.sh run <id> <prop> [tier]                               — apply seeded/<id>/patch.diff to /repo, run the check, revert
set -u
export GOFLAGS=-mod=mod GOPROXY=off GOSUMDB=off GOTOOLCHAIN=local
V=/verif
case "$1" in
verify)
  id=$2; patch=$3; demo=$4; rel=${5:-v5}
  wt=$(mktemp -d /tmp/mutv-XXXX); rmdir $wt
  git -C /repo worktree add -q --detach $wt HEAD || exit 2
  trap "git -C /repo worktree remove --force $wt" EXIT
  cd $wt
  echo "--- demo without change"
  cp $demo $wt/$rel/ ; (cd $wt/$rel && go test -vet=off -count=1 -run 'Demo|ZZ' . 2>&1 | tail -3); r0=${PIPESTATUS[0]}
  rm $wt/$rel/$(basename $demo)
  if ! git apply --3way $patch 2>/dev/null && ! git apply $patch; then echo "PATCH DOES NOT APPLY"; exit 2; fi
  echo "--- suite with change"
  (cd $wt/v5 && go test -vet=off -count=1 ./... 2>&1 | tail -4)
  echo "--- demo with change"
  cp $demo $wt/$rel/ ; (cd $wt/$rel && go test -vet=off -count=1 -run 'Demo|ZZ' . 2>&1 | tail -6)
  rm $wt/$rel/$(basename $demo)
  mkdir -p $V/seeded/$id
  git diff HEAD > $V/seeded/$id/patch.diff
  cp $demo $V/seeded/$id/
  ;;
run)
  id=$2; prop=$3; tier=${4:-quick}
  cd /repo
  if [ -n "$(git status --porcelain)" ]; then echo "/repo not clean"; exit 2; fi
  git apply $V/seeded/$id/patch.diff || { echo "PATCH DOES NOT APPLY"; exit 2; }
  (cd $V && ./check $prop $tier -no-evidence 2>&1 | grep -E "^VIOLATION|^property=|^INCONCLUSIVE|assert=" | head -12)
  git -C /repo checkout -- .
  ;;
esac
