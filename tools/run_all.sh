#!/bin/sh
# usage: tools/run_all.sh <tier> [ids...]  — runs checks in sequence, prints one line per check
tier=${1:-quick}; shift
ids="$@"; [ -z "$ids" ] && ids="C16 C20 C11 C09 C17 C06 C02 C12 C13 C14 C07 C03 C04 C18 C19 C15 C01 C05 C08"
./setup.sh >/dev/null 2>&1
for c in $ids; do
  s=$(date +%s)
  ./check $c $tier ${VP_RUN_REPO:+-repo $VP_RUN_REPO} > log_$c.$tier.txt 2>&1; rc=$?
  e=$(date +%s)
  echo "$c $tier rc=$rc wall=$((e-s))s $(grep '^property=' log_$c.$tier.txt | cut -c1-120)"
  grep -E "^VIOLATION|^INCONCLUSIVE" log_$c.$tier.txt | head -5 | cut -c1-300
done
