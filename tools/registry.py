#!/usr/bin/env python3
"""Source of harness/registry.json (property -> harness instances and bounds). Run after editing."""
import json, os
V = os.path.dirname(os.path.dirname(os.path.abspath(__file__)))

def H(name, quick, thorough=None, witnesses=None, bound="", target="v5", mapreverse=False):
    d = {"name": name, "target": target, "quick": quick, "witnesses": witnesses or [], "bound": bound}
    if thorough is not None:
        d["thorough"] = thorough
    if mapreverse:
        d["map_reverse_in_thorough"] = True
    return d

def ns(a, b, **kw):
    return [dict(n=k, **kw) for k in range(a, b + 1)]

ALLSHAPES = 8191
# ---- RFC 6902 families (shared by C01, C05, C08, C15, C04)
AP_K1 = {"k": 1, "maxtok": 2, "tokmask": 15, "shapemask": ALLSHAPES, "nvals": 8, "kmask0": 63}
AP_K1_SMALL = {"k": 1, "maxtok": 2, "tokmask": 3, "shapemask": ALLSHAPES, "nvals": 8, "kmask0": 63}
AP_K2_FLAT = {"k": 2, "maxtok": 1, "tokmask": 1, "shapemask": 34, "nvals": 2, "kmask0": 63, "kmask1": 63}
# op0 edits strictly inside a container value (2 tokens), op1 copies/moves/tests with one token
AP_K2_INNER = {"k": 2, "maxtok": 2, "mintok0": 2, "maxtok1": 1, "tokmask": 1, "shapemask": 2328, "nvals": 2, "kmask0": 7, "kmask1": 56}
# op0 copies/moves a container (one token), op1 edits strictly inside the source or the duplicate (aliasing)
AP_K2_COPYEDIT = {"k": 2, "maxtok": 2, "maxtok0": 1, "mintok1": 2, "tokmask": 1, "shapemask": 2328, "nvals": 2, "kmask0": 24, "kmask1": 7}
# tokens made of ~0/~1 escapes (optionally followed by 0/1) on a document whose member names are ~1, /, ~0, ~, /0: decoding order
AP_ESC = {"k": 1, "maxtok": 2, "tokmask": 64, "shapemask": 262144, "nvals": 2, "kmask0": 63}
# containers under names that need an escaped ANCESTOR token, names spelled plainly (shape 19) or through JSON escapes (shape 20)
AP_ESCPARENT = {"k": 1, "maxtok": 2, "mintok0": 1, "tokmask": 13, "shapemask": 1572864, "nvals": 2, "kmask0": 63}
AP_PAD = {"k": 2, "maxtok": 1, "tokmask": 1, "shapemask": 2073, "nvals": 4, "kmask0": 63, "kmask1": 48, "pad": 1}
AP_K1_T3 = {"k": 1, "maxtok": 3, "tokmask": 15, "shapemask": ALLSHAPES, "nvals": 8, "kmask0": 63}
AP_K2_DEEP = {"k": 2, "maxtok": 2, "tokmask": 1, "shapemask": 315, "nvals": 2, "kmask0": 63, "kmask1": 63}
AP_K2_INNER_ALL = {"k": 2, "maxtok": 2, "mintok0": 2, "tokmask": 1, "shapemask": 2328, "nvals": 4, "kmask0": 63, "kmask1": 63}
# tokens that look like numbers to a lenient parser (0x1, 0b1, 0o1, 1e0, 1_0, " 1") on array-bearing documents: none names an array location
AP_LOOK = {"k": 1, "maxtok": 2, "mintok0": 1, "tokmask": 160, "shapemask": 48, "nvals": 2, "kmask0": 63}
# indices at the edge of the int range (-2^63, 2^63-1, 2^64) on array-bearing documents
AP_EDGE = {"k": 1, "maxtok": 2, "mintok0": 1, "tokmask": 544, "shapemask": 48, "nvals": 2, "kmask0": 63}
# number literals in operation values (dEdd, 1e400, -0 nested in an array/object value) and in the literal-template documents
AP_LIT = {"k": 1, "maxtok": 2, "tokmask": 1, "shapemask": 196609, "nvals": 9, "valmask": 257, "kmask0": 63}
TESTOP_BOUND = ("the test operation as a relation: target X and operand Y each one of the 23 Equal value shapes (one-letter symbolic member names a..d, symbolic leaves; {k:null} against {j:n}, same member count under different names, nested containers), "
                "X at the root (path \"\"), under a member or at an array element; then=1: followed by an add that must take effect only when the test passed; a scalar or null root is outside C01's domain and only checked for panics")
AP_K3 = {"k": 3, "maxtok": 1, "tokmask": 1, "shapemask": 34, "nvals": 2, "kmask0": 7, "kmask1": 63, "kmask2": 48}
AP_BOUND = ("21 document shapes selected by shapemask (<= 7 nodes, depth <= 3, object and array roots, null members and null elements, names containing ~ and /, containers under such names, names spelled through JSON escapes, HTML-relevant strings, number-literal templates), "
            "K operations (kmask selects the kinds per position), pointers of mintok..maxtok tokens; each token 1-3 symbolic bytes "
            "(any printable ASCII except quote, backslash, slash, tilde), the fixed spellings a~0b / c~1d, a number look-alike (0x1, 0b1, 0o1, 1e0, 1_0, \" 1\") or an index at the edge of the int range (-2^63, 2^63-1, 2^64); 9 value shapes with symbolic leaves; SupportNegativeIndices symbolic")
def apply_harnesses(extra_quick=(), extra_thorough=()):
    q = [AP_K1, AP_K2_FLAT, AP_K2_INNER, AP_K2_COPYEDIT, AP_ESC, AP_ESCPARENT, AP_PAD, AP_LOOK, AP_EDGE, AP_LIT] + list(extra_quick)
    t = [AP_K1_T3, AP_K2_DEEP, AP_K2_INNER_ALL, AP_K3, AP_K2_COPYEDIT, AP_ESC, AP_ESCPARENT, AP_PAD, AP_LOOK, AP_EDGE, AP_LIT] + list(extra_thorough)
    return [
        H("H_Apply", q, t, ["apply/end", "apply/ref-fails", "apply/ref-succeeds"], AP_BOUND),
        H("H_Apply_Idx", [{"tokbytes": 2, "nshapes": 6}], [{"tokbytes": 2, "nshapes": 6}, {"tokbytes": 3, "nshapes": 6}],
          ["apply/end", "apply/ref-fails"],
          "6 array-bearing shapes, one operation of any kind whose last token is tokbytes unconstrained symbolic token bytes (two-/three-digit indices, -1, -10, +1, 01 ...)"),
        H("H_TestOp", [{}], [{}, {"then": 1}], ["apply/ref-succeeds", "apply/ref-fails", "testop/scalar-root"], TESTOP_BOUND),
    ]
AP_ANCHORS = ["v5.findObject", "(*github.com/evanphx/json-patch/v5.partialArray).add", "(*github.com/evanphx/json-patch/v5.partialArray).remove",
              "(*github.com/evanphx/json-patch/v5.partialArray).set", "(*github.com/evanphx/json-patch/v5.partialArray).get",
              "(*github.com/evanphx/json-patch/v5.partialDoc).set", "(*github.com/evanphx/json-patch/v5.partialDoc).remove",
              "(github.com/evanphx/json-patch/v5.Patch).copy", "(github.com/evanphx/json-patch/v5.Patch).move", "(github.com/evanphx/json-patch/v5.Patch).test",
              "(github.com/evanphx/json-patch/v5.Patch).add", "(github.com/evanphx/json-patch/v5.Patch).remove", "(github.com/evanphx/json-patch/v5.Patch).replace", "v5.deepCopy"]
AP_OUTSIDE = ["more than K operations", "documents outside the 13 listed shapes", "tokens longer than the listed byte counts, non-ASCII names"]

# ---- legacy root package (staged copy of /repo/*.go built as module github.com/evanphx/json-patch)
L_K1 = {"k": 1, "kmask0": 63, "maxtok": 2, "tokmask": 3, "shapemask": 8191, "nvals": 8}
L_K1_Q = {"k": 1, "kmask0": 63, "maxtok": 2, "tokmask": 1, "shapemask": 8191, "nvals": 8}
L_K2_FLAT = {"k": 2, "kmask0": 63, "kmask1": 63, "maxtok": 1, "tokmask": 1, "shapemask": 34, "nvals": 2}
L_K2_INNER = {"k": 2, "maxtok": 2, "mintok0": 2, "maxtok1": 1, "tokmask": 1, "shapemask": 2328, "nvals": 2, "kmask0": 7, "kmask1": 56}
L_K2_COPYEDIT = {"k": 2, "maxtok": 2, "maxtok0": 1, "mintok1": 2, "tokmask": 1, "shapemask": 2328, "nvals": 2, "kmask0": 16, "kmask1": 7}
L_IDX = {"k": 1, "kmask0": 63, "maxtok": 2, "mintok0": 1, "tokmask": 2, "shapemask": 432, "nvals": 2}
L_ESC = {"k": 1, "kmask0": 63, "maxtok": 2, "mintok0": 1, "tokmask": 64, "shapemask": 262144, "nvals": 2}
L_LIMIT = {"k": 2, "kmask0": 16, "kmask1": 16, "maxtok": 1, "tokmask": 1, "shapemask": 40960, "nvals": 2, "limit": 1}
L_LIMIT1 = {"k": 1, "kmask0": 16, "maxtok": 2, "tokmask": 1, "shapemask": 57344, "nvals": 2, "limit": 1}
MERGE_Q = [{"docm": 2, "docvals": 7, "patchm": 2, "patchvals": 13}, {"docm": 1, "docvals": 2, "patchm": 3, "patchvals": 2}, {"docm": 2, "docvals": 2, "patchm": 2, "patchvals": 6, "emptynames": 1},
           {"docm": 1, "docvals": 2, "patchm": 2, "patchvals": 3, "escnames": 1, "escmask": 6145}]
MERGE_LIT = {"docm": 1, "docvals": 5, "patchm": 1, "patchvals": 12, "litnums": 1}
MERGE_BOUND = ("documents: objects of <= docm members a,b with values from W (number, string, {k:n}, {k:{j:n}}, [n], null, escape-alphabet string) plus array/number/string roots; "
               "patches: objects of <= patchm members named by one symbolic letter a..d with values from V (null, number, string, {}, {k:null}, {k:n}, {k:{j:null}}, [], [null], [{k:null}]) "
               "(+ {k:null,j:null,i:n}, {k:null,j:{i:null,h:n},g:n}, escape-alphabet string: symbolic plain byte / raw U+2028 / \\f / \\b) or one of 7 non-object patches; leaves symbolic; with emptynames=1 member names may also be the empty string; with litnums=1 numbers are the literal templates dEdd (upper-case exponent), 1e400 and d.d instead of one digit")
MM_LIT = {"docm": 1, "docvals": 3, "patchm": 1, "patchvals": 6, "nonobjdocs": 0, "litnums": 1}
MM_Q = [{"docm": 1, "docvals": 4, "patchm": 1, "patchvals": 13, "nonobjdocs": 1}, {"docm": 1, "docvals": 3, "patchm": 2, "patchvals": 6, "nonobjdocs": 0}, {"docm": 2, "docvals": 2, "patchm": 1, "patchvals": 6, "nonobjdocs": 0, "emptynames": 1}]
MM_BOUND = ("triples (D,P1,P2): D object of <= docm members (values from W) or array/number/string root; P1 object patch, P2 object patch or one of 7 non-object patches, "
            "<= patchm members each with one-letter symbolic names a..d and values from the first patchvals entries of V; incompatible pairs skipped as outside the property")
CREATE_BOUND = ("A, B objects of <= m members, one-letter symbolic names a..d, values chosen by the mask 'vals' from 16 shapes: number, string, {k:n}, {k:n,j:n}, [n], {}, true, null, "
                "[{k:n,j:n}], [{k:n}], [n,n], [[{k:n,j:n}]], [[{k:n}]], [{k:{i:n,j:n}}], [{k:{i:n}}], [{k:null}], escape-alphabet string, [escape-alphabet string]; leaves symbolic")
EQ_Q = [{"nshapes": 23, "modes": 31, "containers": 0, "escmask": 268305}]
EQ_BOUND = ("pairs of 23 value shapes (<= 4 nodes, depth <= 2, all six root kinds incl. null, [null], {k:null}, escape-alphabet strings); member names one symbolic letter a..d, leaves symbolic; "
            "second text independent, \\u00XX-respelled, member-reversed, padded with symbolic whitespace bytes at every structural position, or reversed and padded")

R = {}
R["C01"] = {"harnesses": apply_harnesses(), "anchors": AP_ANCHORS,
            "assumptions": ["member names distinct; outside the property's stated domain and therefore not compared: non-canonical index spellings, empty reference tokens, \"\" as copy/move destination or remove target, root replaced by null"],
            "outside_bound": AP_OUTSIDE}
R["C02"] = {"harnesses": [H("H_Merge", MERGE_Q + [MERGE_LIT], None, ["merge/end", "merge/object-patch", "merge/non-object-patch"], MERGE_BOUND, mapreverse=True)],
            "anchors": ["v5.doMergePatch", "v5.mergeDocs", "v5.pruneNulls", "v5.pruneDocNulls", "v5.pruneAryNulls", "v5.merge"],
            "assumptions": ["member names distinct within an object"],
            "outside_bound": ["documents and patches outside the listed families (more members, deeper nesting)"]}
R["C03"] = {"harnesses": [
    H("H_CreateBig", [{}], None, ["createbig/end"], "numbers that float64 cannot hold exactly (2^53+1, 19 fractional digits, 23 digits, 1E5, 1e400) on a fresh pooled decoder state: carried into the patch verbatim; two members whose values in A and B are neighbouring 16-digit integers / 17-digit decimals with a symbolic last digit (different numbers that one float64 may not tell apart): in the patch exactly when the digits differ"),
    H("H_Create", [{"m": 2, "vals": 47}, {"m": 1, "vals": 262143}, {"m": 2, "vals": 65537}], [{"m": 2, "vals": 255}, {"m": 1, "vals": 262143}, {"m": 2, "vals": 65537}],
      ["create/end", "create/no-null-target"], CREATE_BOUND),
    H("H_CreateArr", [{"vals": 31}], None, ["createarr/end", "createarr/rejected"], "arrays of 0..2 objects of <= 1 member each (first five value shapes)"),
    H("H_CreateReject", [{}], None, ["createreject/accepted", "createreject/rejected"], "all 49 pairs of 7 root kinds")],
    "anchors": ["v5.CreateMergePatch", "v5.createObjectMergePatch", "v5.createArrayMergePatch", "v5.getDiff", "v5.matchesValue", "v5.matchesArray"],
    "assumptions": ["member names distinct within an object", "null roots and null array elements outside (property)"],
    "outside_bound": ["objects with more than m members or deeper than the listed shapes", "numbers other than one symbolic digit (see C05 for literals)"]}
R["C04"] = {"harnesses": [
    H("H_Bytes_Equal", ns(0, 3, m=-1) + [{"n": 2, "m": 2}, {"n": 1, "m": 2}], ns(0, 5, m=-1) + [{"n": 2, "m": 2}, {"n": 3, "m": 2}, {"n": 3, "m": 3}],
      ["bytes/equal/malformed", "bytes/equal/wellformed"], "Equal(a,b) and Equal(b,a): a = every byte string of exactly n bytes; b one of 6 companion texts (m=-1) or every byte string of m bytes"),
    H("H_Bytes_Merge", ns(0, 3), ns(0, 5), ["bytes/merge/malformed", "bytes/merge/wellformed"],
      "MergePatch / MergeMergePatches / CreateMergePatch with one argument = every byte string of n bytes (either position), the other one of 6 companion texts"),
    H("H_Bytes_Decode", ns(0, 4), ns(0, 6), ["bytes/decode/malformed", "bytes/decode/wellformed"],
      "DecodePatch on every byte string of n bytes, then the four Operation accessors, Apply and ApplyIndent on whatever was accepted"),
    H("H_Bytes_ApplyDoc", ns(0, 4), ns(0, 5), ["bytes/applydoc/malformed", "bytes/applydoc/wellformed"],
      "Apply / ApplyIndent of 10 companion patches (incl. root replaced by null followed by add, test without value, copy from root) to every document of n bytes"),
    H("H_Bytes_ApplyOpts", ns(0, 3), ns(0, 5), ["bytes/applyopts/end"],
      "ApplyIndentWithOptions with all five options symbolic (limit: any int64), 10 companion patches, every document of n bytes"),
    H("H_Bytes_InString", [{"k": 3}, {"k": 4, "hi": 1}], [{"k": 3}, {"k": 4}, {"k": 5, "hi": 1}], ["bytes/instring/end"],
      "k unconstrained bytes (hi=1: k unconstrained NON-ASCII bytes, i.e. every well-formed and malformed UTF-8 sequence) inside a string literal (member value, member name, pointer, operation value) of otherwise well-formed arguments, through DecodePatch+accessors+Apply, Equal, MergePatch, MergeMergePatches, CreateMergePatch"),
    H("H_Bytes_InString", [{"k": 3}], [{"k": 3}, {"k": 4, "hi": 1}], ["bytes/instring/end"], "legacy root package: the same family", target="legacy"),
    H("H_Apply", [AP_K1_SMALL, dict(AP_K2_FLAT, shapemask=98)], [AP_K1, AP_K2_DEEP], ["apply/end"], "the C01 family (well-formed but awkward: null members/elements, root-replacing operations followed by another operation)"),
    H("H_Apply", [AP_LIT, AP_LOOK, AP_EDGE], None, ["apply/end"], "number literals (dEdd, 1e400, -0) inside operation values and documents; index tokens that look like numbers (0x1, 1e0, 1_0 ...) or sit at the edge of the int range (-2^63, 2^63-1, 2^64)"),
    H("H_TestOp", [{}], [{}, {"then": 1}], ["testop/scalar-root"], TESTOP_BOUND),
    H("H_Legacy_TestOp", [{}], None, ["legacy/end"], "legacy root package: the test operation over pairs of the 23 Equal value shapes", target="legacy"),
    H("H_Equal", EQ_Q, None, ["equal/true"], "the C06 family"),
    H("H_Merge", [{"docm": 1, "docvals": 6, "patchm": 2, "patchvals": 10}], None, ["merge/end"], "the C02 family"),
    H("H_MergeMerge", [{"docm": 1, "docvals": 2, "patchm": 1, "patchvals": 10, "nonobjdocs": 1}], None, ["mm/end"], "the C07 family"),
    H("H_CreateReject", [{}], None, ["createreject/rejected"], "49 root-kind pairs"),
    H("H_Bytes_Equal", ns(0, 3, m=-1) + [{"n": 2, "m": 2}], ns(0, 5, m=-1) + [{"n": 2, "m": 2}, {"n": 3, "m": 3}], ["bytes/equal/malformed", "bytes/equal/wellformed"], "legacy root package: Equal on every byte string of n bytes", target="legacy"),
    H("H_Bytes_Merge", ns(0, 3), ns(0, 5), ["bytes/merge/malformed", "bytes/merge/wellformed"], "legacy root package: MergePatch / MergeMergePatches / CreateMergePatch with one argument = every byte string of n bytes", target="legacy"),
    H("H_Bytes_Decode", ns(0, 4), ns(0, 5), ["bytes/decode/malformed", "bytes/decode/wellformed"], "legacy root package: DecodePatch + accessors + Apply/ApplyIndent on every byte string of n bytes", target="legacy"),
    H("H_Bytes_ApplyDoc", ns(0, 4), ns(0, 5), ["bytes/applydoc/malformed", "bytes/applydoc/wellformed"], "legacy root package: Apply / ApplyIndent of 10 companion patches to every document of n bytes (n = 4 reaches the document null)", target="legacy"),
    H("H_Legacy_Apply", [L_K1_Q], [L_K1, L_K2_FLAT], ["legacy/end"], "legacy root package: the C18 family under the panic assertion", target="legacy"),
    H("H_Equal", [{"nshapes": 20, "modes": 15, "containers": 0}], None, ["equal/true"], "legacy root package: the C06 family incl. null roots and nulls inside arrays", target="legacy")],
    "anchors": ["v5.Equal", "v5.CreateMergePatch", "v5.DecodePatch", "v5.doMergePatch", "(github.com/evanphx/json-patch/v5.Patch).ApplyIndentWithOptions", "v5.validateOperation", "(*github.com/evanphx/json-patch/v5.lazyNode).equal"],
    "assumptions": ["non-nil options; Patch values come from DecodePatch"],
    "outside_bound": ["byte strings longer than the listed n", "deep nesting (recursion depth of equal/merge is not explored; the scanner's own depth limit is covered under C16)",
                      "unbounded termination: 'no hang' is decided as 'every path ends within the per-path instruction budget of 5e6'"]}
R["C06"] = {"harnesses": [H("H_Equal", EQ_Q, None, ["equal/true", "equal/false"], EQ_BOUND, mapreverse=True),
                          H("H_Bytes_Equal", ns(0, 3, m=-1) + [{"n": 2, "m": 2}], ns(0, 5, m=-1) + [{"n": 2, "m": 2}, {"n": 3, "m": 3}], ["bytes/equal/malformed", "bytes/equal/wellformed"],
                            "every byte string of n bytes against 6 companion texts or every string of m bytes: malformed => false; short well-formed texts compared structurally")],
            "anchors": ["v5.Equal", "(*github.com/evanphx/json-patch/v5.lazyNode).equal"],
            "assumptions": ["member names distinct within an object"],
            "outside_bound": ["values outside the 20 listed shapes", "numerically equal numbers with different spellings (outside the property's domain)"]}
R["C07"] = {"harnesses": [H("H_MergeMerge", MM_Q + [MM_LIT], None, ["mm/end", "mm/non-object-p2"], MM_BOUND, mapreverse=True)],
            "anchors": ["v5.doMergePatch", "v5.mergeDocs", "v5.MergeMergePatches", "v5.merge"],
            "assumptions": ["member names distinct within an object", "compatibility condition of the property"],
            "outside_bound": ["larger patches/documents than the listed families"]}
R["C16"] = {"harnesses": [
    H("H_C16_Valid", ns(0, 5), ns(0, 7), ["C16/valid/accept", "C16/valid/reject"], "Valid vs the reference recogniser on every byte string of exactly n bytes, all n bytes unconstrained"),
    H("H_C16_Codec", ns(0, 4), ns(0, 6), ["C16/codec/accept", "C16/codec/reject"], "Compact, Indent and Unmarshal(into any) accept iff the reference recogniser does, HTMLEscape does not panic: every byte string of n bytes"),
    H("H_C16_Template", [{"ntemplates": 9, "k": 1}], [{"ntemplates": 9, "k": 1}, {"ntemplates": 9, "k": 2}], ["C16/template/end", "C16/codec/accept", "C16/codec/reject"],
      "9 well-formed templates (6-43 bytes: nesting, numbers with fraction/exponent, short and \\uXXXX escapes incl. a surrogate pair and an escaped member name, multi-byte UTF-8) with k unconstrained bytes inserted at, or overwriting from, every position"),
    H("H_C16_Depth", [{}], None, ["C16/depth/pushed", "C16/depth/limit-hit", "C16/depth/popped", "C16/depth/end"],
      "one scanner step from a parse stack of SYMBOLIC depth d in [0,10000] with arbitrary contents (abstract slice: length a 64-bit variable, contents an SMT array) and an unconstrained byte: push succeeds iff d < 10000, push/pop change the depth by exactly one, no out-of-range access for any d"),
    H("H_C16_Gates", [{}], None, ["C16/gates/accept", "C16/gates/reject"], "8 public entry points (Apply object/array document, DecodePatch, MergePatch document/patch, MergeMergePatches, CreateMergePatch, Equal): a well-formed argument with one unconstrained byte prepended and one appended is accepted when both are JSON whitespace and rejected when the text is no longer well-formed"),
    H("H_Bytes_ApplyDoc", ns(0, 3), ns(0, 5), ["bytes/applydoc/malformed", "bytes/applydoc/wellformed"], "Apply on every document of n bytes"),
    H("H_Bytes_Merge", ns(0, 3), ns(0, 5), ["bytes/merge/malformed", "bytes/merge/wellformed"], "merge functions with one argument = every byte string of n bytes"),
    H("H_Bytes_Decode", ns(0, 4), ns(0, 6), ["bytes/decode/malformed", "bytes/decode/wellformed"], "DecodePatch on every byte string of n bytes"),
    H("H_Bytes_Equal", ns(0, 3, m=-1), ns(0, 5, m=-1), ["bytes/equal/malformed"], "Equal false on every malformed string of n bytes"),
    H("H_CreateBig", [{}], None, ["createbig/end"], "CreateMergePatch accepts well-formed objects whose numbers lie outside float64 (1e400, 23 digits) as the FIRST decode on a fresh pooled decoder state")],
    "anchors": ["internal/json.Valid", "internal/json.checkValid", "internal/json.stateBeginValue", "internal/json.stateEndValue", "(*github.com/evanphx/json-patch/v5/internal/json.scanner).pushParseState", "internal/json.Compact", "internal/json.Indent", "internal/json.Unmarshal"],
    "assumptions": ["Apply on the EMPTY document returns an empty result and no error; this is pinned by the repository's own Cases[0] and listed as open known finding KF-empty-doc"],
    "outside_bound": ["fully symbolic strings longer than the listed n; longer strings only through the template family", "nesting between the explored stack depths is covered by the one-step argument only (not by whole texts 10000 levels deep)"]}

# ---- options families (H_Apply with optmask: 1 AllowMissingPathOnRemove, 2 EnsurePathExistsOnAdd, 4 EscapeHTML, 8 copy-size limit)
HTML_SHAPES = 57344  # shapes 13,14,15: strings over printable ASCII incl. < > &
C12_K1 = {"k": 1, "kmask0": 16, "maxtok": 2, "tokmask": 1, "shapemask": HTML_SHAPES, "nvals": 2, "optmask": 12}
C12_K2 = {"k": 2, "kmask0": 16, "kmask1": 16, "maxtok": 1, "tokmask": 1, "shapemask": 40960, "nvals": 2, "optmask": 12}
C12_K2_MIX = {"k": 2, "kmask0": 63, "kmask1": 16, "maxtok": 1, "tokmask": 1, "shapemask": 8192, "nvals": 2, "optmask": 12}
C12_PKG = {"k": 1, "kmask0": 16, "maxtok": 1, "tokmask": 1, "shapemask": 40960, "nvals": 2, "optmask": 20}
C12_K3 = {"k": 3, "kmask0": 16, "kmask1": 16, "kmask2": 16, "maxtok": 1, "tokmask": 32, "shapemask": HTML_SHAPES, "nvals": 2, "optmask": 12}
C12_K2_ALL = {"k": 2, "kmask0": 16, "kmask1": 16, "maxtok": 2, "tokmask": 1, "shapemask": HTML_SHAPES, "nvals": 2, "optmask": 12}
R["C12"] = {"harnesses": [H("H_PackageDefault_Sequence", [{}], None, ["pkgseq/end", "pkgseq/limit-hit"], "Apply, then the package-level limit is changed (both values free int64), then Apply / ApplyIndent: the second call obeys the new default"),
    H("H_Options_Reuse", [{}], None, ["reuse/end", "reuse/limit-hit"], "one ApplyOptions value reused: a first call (copy + failing test / copy + missing path / three copies / one copy) then 1-2 copies with the same options, limit = any int64, EscapeHTML on/off: the second call behaves as with fresh options"),
    H("H_Apply", [C12_K1, C12_K2, C12_PKG], [C12_K1, C12_K2_ALL, C12_K2_MIX, C12_K3, C12_PKG], ["apply/copy-limit-hit", "apply/end"],
    "documents with strings of 1-2 symbolic bytes over printable ASCII (so <, >, & make the escaped length vary per path); K copy operations (optionally one other operation first) with pointers of <= maxtok one-byte symbolic tokens; "
    "AccumulatedCopySizeLimit = any int64 (one symbolic variable: 0, negative, total-1, total, total+1, MaxInt64 all decided in the same query); EscapeHTML on/off; SupportNegativeIndices symbolic"),
    H("H_Legacy_Apply", [L_LIMIT1, L_LIMIT], None, ["legacy/copy-limit-hit", "legacy/end"],
      "legacy root package: 1-2 copy operations on documents with strings of 1-2 symbolic bytes over printable ASCII (escaped length varies with <, >, &), package-level AccumulatedCopySizeLimit = any int64: *AccumulatedCopySizeError exactly when the escaped total exceeds a positive limit", target="legacy")],
    "anchors": ["(github.com/evanphx/json-patch/v5.Patch).copy", "v5.deepCopy", "v5.NewApplyOptions", "(github.com/evanphx/json-patch.Patch).copy", "json-patch.deepCopy"],
    "assumptions": ["a copied null may count 0 or 4 bytes: limits between the two totals are not compared", "member names and strings are ASCII"],
    "outside_bound": ["more than 3 copies (2 in the legacy package)"]}
C13_K1 = {"k": 1, "kmask0": 2, "maxtok": 2, "tokmask": 15, "shapemask": ALLSHAPES, "nvals": 2, "optmask": 1}
C13_K2 = {"k": 2, "kmask0": 2, "kmask1": 63, "maxtok": 1, "tokmask": 1, "shapemask": 166, "nvals": 2, "optmask": 1}
C13_K2B = {"k": 2, "kmask0": 61, "kmask1": 2, "maxtok": 1, "tokmask": 1, "shapemask": 166, "nvals": 2, "optmask": 1}
C13_K1_T3 = {"k": 1, "kmask0": 2, "maxtok": 3, "tokmask": 15, "shapemask": ALLSHAPES, "nvals": 2, "optmask": 1}
C13_K2_DEEP = {"k": 2, "kmask0": 63, "kmask1": 63, "maxtok": 2, "tokmask": 1, "shapemask": 24, "nvals": 2, "optmask": 1}
C13_K1_ALL = {"k": 1, "kmask0": 63, "maxtok": 2, "tokmask": 3, "shapemask": ALLSHAPES, "nvals": 2, "optmask": 1}
C13_ESCPARENT = dict(AP_ESCPARENT, optmask=1)
# remove whose LAST token is empty (the member named ""), present or absent, at the root and nested, followed by any operation
C13_EMPTY = {"k": 2, "kmask0": 2, "kmask1": 63, "maxtok": 2, "mintok0": 1, "tokmask": 1, "tokmask0": 288, "shapemask": 4194313, "nvals": 2, "optmask": 1, "emptytok": 1}
R["C13"] = {"harnesses": [H("H_Apply", [C13_K1, C13_K1_ALL, C13_K2, C13_K2B, C13_ESCPARENT, C13_EMPTY], [C13_K1_T3, C13_K2, C13_K2B, C13_K2_DEEP, C13_EMPTY], ["apply/end", "apply/ref-fails"],
    AP_BOUND + "; AllowMissingPathOnRemove on/off; the reference skips exactly the removes whose target or ancestor is absent"),
    H("H_AllowMissing_Meta", [{"k": 2, "maxtok": 1, "tokmask": 1, "shapemask": 166, "nvals": 2}], [{"k": 2, "maxtok": 2, "tokmask": 1, "shapemask": 190, "nvals": 2}, {"k": 3, "maxtok": 1, "tokmask": 1, "shapemask": 34, "nvals": 2}], ["meta/end", "meta/skipped-some"],
      "metamorphic, both sides real code: patch P with the option on vs P minus the removes the reference classifies as skipped with the option off")],
    "anchors": ["(github.com/evanphx/json-patch/v5.Patch).remove", "(*github.com/evanphx/json-patch/v5.partialDoc).remove", "(*github.com/evanphx/json-patch/v5.partialArray).remove"],
    "assumptions": ["outside (property): remove of \"\", non-numeric last token on an array; and, by deliberate narrowing, a negative index while SupportNegativeIndices is off"],
    "outside_bound": AP_OUTSIDE}
C14_K1 = {"k": 1, "kmask0": 1, "maxtok": 3, "tokmask": 13, "shapemask": 1561, "nvals": 2, "optmask": 2}
C14_K1_ALL = {"k": 1, "kmask0": 1, "maxtok": 3, "tokmask": 13, "shapemask": ALLSHAPES, "nvals": 3, "optmask": 2}
C14_K2 = {"k": 2, "kmask0": 1, "kmask1": 63, "maxtok": 2, "maxtok1": 1, "tokmask": 1, "shapemask": 521, "nvals": 2, "optmask": 2}
C14_DASHNAME = {"k": 1, "kmask0": 1, "maxtok": 2, "mintok0": 2, "tokmask": 2, "shapemask": 1, "nvals": 1, "optmask": 2}
C14_ESCPARENT = {"k": 1, "kmask0": 1, "maxtok": 3, "mintok0": 1, "tokmask": 13, "shapemask": 1572864, "nvals": 2, "optmask": 2}
R["C14"] = {"harnesses": [H("H_Apply", [C14_K1, C14_ESCPARENT, C14_DASHNAME], [C14_K1_ALL, C14_K2, C14_ESCPARENT, C14_DASHNAME], ["apply/end", "apply/ref-succeeds"],
    "add with EnsurePathExistsOnAdd on/off, paths of <= 3 tokens (one symbolic byte: names, indices 0-9, '-'; or the spellings a~0b / c~1d), over documents in which any prefix of the path may exist; optionally followed by one arbitrary operation; compared ordered with the reference ensure-then-add (created containers hold only the path and null padding; everything else unchanged)"),
    H("H_Ensure_Same", [{"maxtok": 2, "tokmask": 13, "shapemask": 1561, "nvals": 2}], [{"maxtok": 3, "tokmask": 13, "shapemask": ALLSHAPES, "nvals": 2}], ["ensure/plain-add-succeeds"],
      "an add that succeeds without the option gives byte-identical output with it")],
    "anchors": ["v5.ensurePathExists", "(github.com/evanphx/json-patch/v5.Patch).add"],
    "assumptions": ["outside (property): null or scalar on the path, negative indices, '-' other than last; don't-care (DESIGN appendix A): existing array shorter than the LAST token's index"],
    "outside_bound": ["paths longer than 3 tokens, indices above 9"]}
R["C05"] = {"harnesses": apply_harnesses() + [H("H_Merge", MERGE_Q, None, ["merge/object-patch"], MERGE_BOUND),
    H("H_Escape", [{"natoms": 1, "atommask": 268337}], None, ["escape/end"], "escape-alphabet strings (symbolic plain byte, raw U+2028/9, non-BMP, short escapes, boundary \\u escapes) in untouched values and member names: strings keep their value through Apply"),
    H("H_Apply", [{"k": 0, "maxtok": 1, "tokmask": 1, "shapemask": 262143, "nvals": 2, "stable": 1}, {"k": 1, "maxtok": 2, "tokmask": 1, "shapemask": 196608, "nvals": 2, "kmask0": 63, "stable": 1}],
      [{"k": 0, "maxtok": 1, "tokmask": 1, "shapemask": 262143, "nvals": 2}, {"k": 2, "maxtok": 1, "tokmask": 1, "shapemask": 196608, "nvals": 2, "kmask0": 63, "kmask1": 63}], ["apply/end"],
      "literal family: the empty patch on all 18 document shapes, and K operations on two documents whose numbers are the templates d.d, -0, a 23-digit integer with three symbolic digits, 1e400, -d, dEdd with members in non-sorted order: output compared ordered and literal-exact with the reference")],
    "anchors": AP_ANCHORS + ["(*github.com/evanphx/json-patch/v5.partialDoc).TrustMarshalJSON", "v5.mergeDocs"],
    "assumptions": ["order among members that MergePatch adds is unspecified (Go map iteration) and not asserted"],
    "outside_bound": AP_OUTSIDE}
C08_K1_OPTS = {"k": 1, "kmask0": 63, "maxtok": 2, "tokmask": 1, "shapemask": ALLSHAPES, "nvals": 2, "optmask": 1}
C08_DUP = {"k": 2, "kmask0": 63, "kmask1": 63, "maxtok": 1, "tokmask": 1, "shapemask": 2097152, "nvals": 2}
C08_OPTS = {"k": 2, "kmask0": 63, "kmask1": 63, "maxtok": 1, "tokmask": 1, "shapemask": 8194, "nvals": 2, "optmask": 15}
R["C08"] = {"harnesses": apply_harnesses(extra_quick=[C12_K1, C08_K1_OPTS, C08_DUP], extra_thorough=[C08_K1_OPTS, C08_OPTS, C12_K2, C13_K2, C08_DUP]) ,
    "anchors": AP_ANCHORS + ["(github.com/evanphx/json-patch/v5.Patch).ApplyIndentWithOptions"],
    "assumptions": ["error classes come from the reference evaluator: testFailed only when a comparison was made and came out unequal; missing for absent members and unreachable parents; copyLimit from the running escaped total"],
    "outside_bound": AP_OUTSIDE}

R["C11"] = {"harnesses": [
    H("H_DecodePatch", [{"elements": 1, "pad": 1}], [{"elements": 1, "pad": 1}, {"elements": 2, "pad": 0, "fixed": 0}, {"elements": 2, "pad": 0, "fixed": 1}], ["decode/accepted", "decode/rejected", "decode/end"],
      "patch texts assembled member by member: root kind (array of operations / array with a non-object element / non-array root / empty array), and for each of op, path, from, value: absent, null, string, number, object, array or present under a case-renamed key; optional extra member, optional duplicated path; the op string is one of the six names or 3/4/6 symbolic letters (any case); one symbolic whitespace byte before and after; accessors compared with the generating members"),
    H("H_DecodePatch_Template", [{"k": 1}], [{"k": 1}, {"k": 2}], ["decode/template/malformed", "decode/template/whitespace", "decode/template/end"], "4 valid patch documents (37-66 bytes; one with escape sequences in a member name, in path and in a value, so that an inserted byte can land after a backslash or inside \\uXXXX) with k unconstrained bytes inserted at every position: rejected when no longer well-formed JSON, accepted when the insertion is insignificant whitespace"),
    H("H_Bytes_Decode", ns(0, 4), ns(0, 6), ["bytes/decode/malformed", "bytes/decode/wellformed"], "every byte string of n bytes: malformed, non-array roots and non-object elements rejected; the empty array accepted with any whitespace")],
    "anchors": ["v5.DecodePatch", "v5.validateOperation", "v5.validatePatch", "(github.com/evanphx/json-patch/v5.Operation).Kind", "(github.com/evanphx/json-patch/v5.Operation).Path", "(github.com/evanphx/json-patch/v5.Operation).From", "(github.com/evanphx/json-patch/v5.Operation).ValueInterface"],
    "assumptions": ["the JSON text null (decodes to an empty patch) is outside the stated domain", "duplicated members are asserted only when both copies fall in the same accept/reject class (here: path duplicated with the same string)"],
    "outside_bound": ["more than 2 elements", "op strings of other lengths, non-letter op strings"]}

TN_ESC = {"escdocs": 1, "atommask": 1025, "kmask0": 17, "maxtok": 1, "tokmask": 33, "nvals": 2, "shapemask": 0}
TN_PLAIN = {"escdocs": 0, "atommask": 0, "kmask0": 63, "maxtok": 1, "tokmask": 1, "nvals": 2, "shapemask": 8218}
R["C15"] = {"harnesses": [
    H("H_Escape", [{"natoms": 1, "atommask": 1048575}], [{"natoms": 1, "atommask": 1048575}, {"natoms": 2, "atommask": 3391}], ["escape/on", "escape/off", "escape/end"],
      "4 document shapes carrying strings (values and member names, top level, nested, inside arrays) of natoms atoms from the escape alphabet: any printable ASCII byte (symbolic: covers <, >, &), escaped quote, escaped backslash, \\u001f, raw U+2028, raw U+2029, \\u2028, raw non-BMP, lone-surrogate escape, \\n, \\u003c, \\f, \\b, \\t, \\r, \\/; 6 patches (empty, add elsewhere, copy/move of the string, add of a value carrying such a string, copy of the whole document); EscapeHTML on/off; indent of 1-2 bytes from space/tab"),
    H("H_TestNeutral", [TN_ESC, TN_PLAIN], [dict(TN_ESC, atommask=2047, kmask0=63, maxtok=2), dict(TN_PLAIN, maxtok=2, shapemask=8191)], ["testneutral/end"],
      "one operation plus one PASSING test (value = the current value at a chosen path, before or after the operation) vs the operation alone: byte-identical output; EscapeHTML on/off; documents with <, >, & in strings"),
    H("H_Apply", [AP_K1_SMALL], [AP_K1, AP_K2_FLAT], ["apply/end"], "the C01 family: output parses and is well-formed"),
    H("H_Merge", MERGE_Q, None, ["merge/end"], "MergePatch outputs parse"),
    H("H_MergeMerge", [MM_Q[0]], None, ["mm/end"], "MergeMergePatches outputs parse"),
    H("H_Create", [{"m": 1, "vals": 65535}], None, ["create/end"], "CreateMergePatch outputs parse"),
    H("H_CreateBig", [{}], None, ["createbig/end"], "CreateMergePatch with numbers outside float64 on a fresh decoder: the patch reads back as the intended value"),
    H("H_Bytes_ApplyDoc", ns(0, 3), ns(0, 5), ["bytes/applydoc/wellformed"], "every successful Apply on n arbitrary document bytes returns a well-formed text"),
    H("H_Bytes_ApplyOpts", ns(0, 3), ns(0, 5), ["bytes/applyopts/end"], "same for ApplyIndentWithOptions with symbolic options"),
    H("H_Bytes_Merge", ns(0, 3), ns(0, 5), ["bytes/merge/wellformed"], "merge outputs on arbitrary bytes are well-formed")],
    "anchors": ["internal/json.MarshalEscaped", "(*github.com/evanphx/json-patch/v5.partialDoc).TrustMarshalJSON", "internal/json.compact", "internal/json.Indent", "(github.com/evanphx/json-patch/v5.Patch).ApplyIndentWithOptions", "(github.com/evanphx/json-patch/v5.Patch).test"],
    "assumptions": ["narrowing (DESIGN appendix A): with EscapeHTML off, 'introduces no escapes' is asserted unless a member NAME contains a raw U+2028/U+2029 (the string encoder escapes these two unconditionally when it re-spells a name)",
                    "Apply on the empty document: open known finding KF-empty-doc"],
    "outside_bound": ["strings of more than 2 atoms", "invalid UTF-8 input (the property is stated for UTF-8 input)"]}

R["C18"] = {"harnesses": [H("H_Legacy_Apply", [L_K1_Q, L_K2_FLAT, L_K2_INNER, L_K2_COPYEDIT, L_LIMIT1, L_IDX, L_ESC], [L_K1, L_K2_FLAT, L_K2_INNER, L_K2_COPYEDIT, L_LIMIT1, L_LIMIT, L_IDX, L_ESC, dict(L_K2_FLAT, shapemask=315, maxtok=2)],
    ["legacy/end", "legacy/ref-fails"], AP_BOUND.replace("SupportNegativeIndices symbolic", "package variable SupportNegativeIndices on/off; optionally package variable AccumulatedCopySizeLimit = any int64") + "; pointers have at least one token (v4 offers no root-replacing add and no copy from the root)", target="legacy"),
    H("H_Legacy_TestOp", [{}], [{}, {"then": 1}], ["legacy/end", "legacy/ref-fails"], "the test operation as a relation: target and operand each one of the 23 Equal value shapes (symbolic one-letter names, symbolic leaves), target under a member or at an array element; then=1: followed by an add", target="legacy")],
    "anchors": ["json-patch.findObject", "(github.com/evanphx/json-patch.Patch).copy", "(github.com/evanphx/json-patch.Patch).move", "(github.com/evanphx/json-patch.Patch).test", "(github.com/evanphx/json-patch.Patch).add", "(github.com/evanphx/json-patch.Patch).remove", "(github.com/evanphx/json-patch.Patch).replace", "json-patch.deepCopy", "(*github.com/evanphx/json-patch.lazyNode).equal"],
    "assumptions": ["the root package is staged (non-test *.go files copied at check time) into a scratch module named github.com/evanphx/json-patch; the standard library's encoding/json (this toolchain's source) is executed under the same reflect model",
                    "errors are demanded only for the three classes the property names (failed test, remove/move of an absent location, index out of range)", "test operands are strings without escapes and without <, >, &"],
    "outside_bound": AP_OUTSIDE}
R["C19"] = {"harnesses": [
    H("H_Merge", MERGE_Q, None, ["merge/end", "merge/object-patch"], MERGE_BOUND + " (asserted for object and array patches)", target="legacy"),
    H("H_MergeMerge", [MM_Q[0], {"docm": 1, "docvals": 2, "patchm": 2, "patchvals": 4, "nonobjdocs": 0}], [MM_Q[0], MM_Q[2], {"docm": 1, "docvals": 2, "patchm": 2, "patchvals": 4, "nonobjdocs": 0}], ["mm/end"], MM_BOUND, target="legacy"),
    H("H_Create_Legacy", [{"m": 2, "vals": 7}, {"m": 1, "vals": 65535}], [{"m": 2, "vals": 7}, {"m": 1, "vals": 65535}], ["create/end"], CREATE_BOUND + "; numbers are CONCRETE one-digit integers (the legacy path goes through float64; no float theory in the engine)", target="legacy"),
    H("H_Equal", [{"nshapes": 20, "modes": 29, "containers": 1}, {"nshapes": 23, "modes": 16, "containers": 1, "escmask": 1}], None, ["equal/true", "equal/false"], EQ_BOUND + " (object and array roots, no escaped spellings)", target="legacy")],
    "anchors": ["json-patch.doMergePatch", "json-patch.mergeDocs", "json-patch.pruneNulls", "json-patch.CreateMergePatch", "json-patch.getDiff", "json-patch.matchesValue", "json-patch.Equal", "(*github.com/evanphx/json-patch.lazyNode).equal"],
    "assumptions": ["staged legacy module as for C18", "CreateMergePatch numbers concrete plain integers (float64-exact)", "Equal on object/array roots without escapes (property)"],
    "outside_bound": ["families as for C02/C03/C06/C07 at their quick bounds"]}

R["C20"] = {"harnesses": [H("H_C20_Main", [{"maxfiles": 2}], [{"maxfiles": 3}], ["C20/all-good", "C20/some-bad", "C20/end"],
    "the real main() of v5/cmd/json-patch with 0..maxfiles -p files, each one of: patch that applies (6 variants with symbolic leaves: add, replace, empty, append to an array (not idempotent), copy from the pointer \"/\" (reads the whole current document), add-then-test), patch that fails to apply (2), malformed (3), missing file, directory - in every order; stdin one of 6 forms of a document with two symbolic string bytes (any printable ASCII, so % is included): compact, surrounded by whitespace, whitespace inside, followed by a second document, followed by garbage, truncated (the last three only with at least one patch file); expected output = left fold of the library's own DecodePatch+Apply",
    target="cmd"),
    H("H_C20_Main", [{"maxfiles": 2}], [{"maxfiles": 3}], ["C20/all-good", "C20/some-bad", "C20/end"],
      "the root cmd/json-patch (staged with the legacy root package it imports): the same scenario family; expected output = left fold of the root package's own DecodePatch+Apply; confirmed with the binary built from the staged module",
      target="cmdlegacy")],
    "anchors": ["cmd/json-patch.main", "(*github.com/evanphx/json-patch/v5/cmd/json-patch.FileFlag).UnmarshalFlag"],
    "assumptions": ["environment stubs (harness/incmd): go-flags' own argument parsing is replaced by a stub that calls the real FileFlag.UnmarshalFlag for each -p value in order; os.Stat, filepath.Abs, ReadFile, os.Open answer from the scenario; os.Stdin/Stdout/Stderr are three handles whose Read/Write/WriteString/ReadFrom/WriteTo are served from the scenario whoever calls them (so the real io.ReadAll, bufio, json.Decoder or io.Copy run on top of them); log.Fatal*/os.Exit record the exit status and end the run, log.Print* write to stderr; fmt.Print/Println/Printf/Fprint* implement %s, %v, %d and %% for strings, byte slices, ints and errors and render a verb without operand as Go does (anything else renders as '?' and ends unconfirmed)",
                    "every reported violation and a sample of passing paths are re-run with the REAL binary (go build ./cmd/json-patch from the working tree) on real files"],
    "outside_bound": ["more than 3 files", "go-flags' argument parsing, the operating system, process exit plumbing"]}

R["C09"] = {"harnesses": [
    H("H_History", [{"len": 1}], [{"len": 1}, {"len": 2}], ["history/B-succeeds", "history/end"],
      "r1 := B(x); len arbitrary calls; r2 := B(x) with B one of Apply, ApplyIndent, CreateMergePatch, Equal, MergePatch, MergeMergePatches and each intervening call one of 13 kinds (the six again with other leaves, a failing Apply, malformed document / patch / merge patch / Equal operand / CreateMergePatch operand, ApplyWithOptions with EscapeHTML off); leaves symbolic; sync.Pool modelled as the runtime behaves on one goroutine (private slot, then shared list newest first) so every pooled decoder/encoder/scanner state left behind by one call is handed to the next"),
    H("H_C09_StaleDecoder", [{}], None, ["C09/stale/end", "C09/stale/object"],
      "one inductive step: a decodeState in an arbitrary stale condition (symbolic offset, opcode, scanner byte count and top-of-stack entry; stale saved error, error context, key list, scanner step function, scanner error) goes through set-useNumber / [checkValid] / init / unmarshal of 6 texts into any, map and slice destinations and must give the outcome of a brand-new state"),
    H("H_Options_Reuse", [{}], None, ["reuse/end"], "one ApplyOptions value reused across calls that fail or succeed: the options are not written and the next call is unaffected"),
    dict(H("H_Repeat_Stable", [{}], None, ["repeat/end"], "the same Apply / CreateMergePatch twice on 3 documents (two of them spelling a member name twice) x 4 patches, with ALTERNATING map iteration order in the interpreter: the bytes must not depend on Go's map order"), map_alternate=True),
    H("H_SharedPatch", [{}], None, ["shared/end"], "one decoded Patch (10 operations, among them add of an array / object value followed by add, remove and replace INSIDE that value) applied to D1, D2, D1 vs a freshly decoded Patch each time; the Patch's raw messages and a result fed back as the next document are compared byte for byte before/after")],
    "anchors": ["internal/json.UnmarshalValid", "internal/json.MarshalEscaped", "(*github.com/evanphx/json-patch/v5/internal/json.decodeState).init", "internal/json.newScanner", "internal/json.freeScanner", "(github.com/evanphx/json-patch/v5.Operation).value", "v5.newRawMessage"],
    "assumptions": ["sync.Pool = per-pool private slot + shared list taken newest first (the behaviour of the runtime on one goroutine with GC off; the native replay runs with GC disabled); other hand-out orders the API allows are not explored", "concurrency is C10 (not applicable)"],
    "outside_bound": ["histories with more than 2 intervening calls (1 in quick)", "the inductive step covers the decoder state only (encodeState and scanner pool are covered by the histories)"]}

R["C17"] = {"harnesses": [
    H("H_Codec_RoundTrip", [{"natoms": 1, "atommask": 1048575, "pad": 0}, {"natoms": 1, "atommask": 1, "pad": 1}], [{"natoms": 2, "atommask": 3391, "pad": 0}, {"natoms": 1, "atommask": 1048575, "pad": 1}], ["codec/object", "codec/roundtrip-end"],
      "8 JSON templates (string, number, mixed array, object, nested object/array, escape-alphabet member name, array of objects, 23-digit integer) with symbolic leaves (numbers d.d / -d / dEd, strings of natoms escape-alphabet atoms, one-letter symbolic names), optionally padded with symbolic whitespace bytes at every structural position: UnmarshalValid -> Marshal / MarshalEscaped(false) read back as the same value; Compact / Indent / HTMLEscape keep value and member order; Indent = Compact re-indented; key lists of UnmarshalWithKeys / UnmarshalValidWithKeys in document order"),
    H("H_Codec_Differential", [{"atommask": 1048575}], None, ["codec/differential-end"],
      "fork vs the standard library's encoding/json, BOTH executed from source: Marshal bytes and Unmarshal results for map[string]any, []any, []string, map[string]string, string and a harness-declared struct type with a renamed field, '-', omitempty, ',string', a nested pointer struct, a map field and an embedded struct; string leaves from the escape alphabet, bool symbolic, ints from {0,7,42}; []byte values of 0, 1, 47, 48, 49, 63, 64, 65, 100 bytes (base64 path, scratch-buffer boundary) bare and inside a map"),
    H("H_CreateBig", [{}], None, ["createbig/end"], "numbers outside float64 keep their literal through UnmarshalValid on a fresh pooled state (seen through CreateMergePatch)"),
    H("H_Codec_Stream", [{"atommask": 1048575}], None, ["codec/stream-end"],
      "Decoder (UseNumber) over a stream of two values separated by a symbolic whitespace byte, More(), and Encoder with SetEscapeHTML on/off and 5 SetIndent settings (none, indent only, prefix only, both): same decoded values as the standard library's Decoder, the Encoder's bytes equal to the standard library Encoder's under the same settings, one value per line without indentation, values read back unchanged"),
    H("H_C17_Fold", [{"ns": 2, "nt": 2}, {"ns": 1, "nt": 3}, {"ns": 2, "nt": 4}], [{"ns": 2, "nt": 2}, {"ns": 1, "nt": 3}, {"ns": 2, "nt": 4}, {"ns": 3, "nt": 3}, {"ns": 3, "nt": 5}], ["C17/fold/end"],
      "equalFoldRight, asciiEqualFold, simpleLetterEqualFold vs a reference simple-fold comparison, under their documented preconditions: s = ns unconstrained ASCII bytes, t = nt unconstrained bytes (covers K/U+212A and S/U+017F)")],
    "anchors": ["internal/json.UnmarshalValid", "internal/json.UnmarshalWithKeys", "internal/json.UnmarshalValidWithKeys", "internal/json.Marshal", "internal/json.MarshalEscaped", "internal/json.Compact", "internal/json.compact", "internal/json.Indent", "internal/json.HTMLEscape", "internal/json.equalFoldRight", "internal/json.asciiEqualFold", "internal/json.simpleLetterEqualFold"],
    "assumptions": ["not covered (stated): run-time generated struct types (reflect.StructOf) - one fixed struct type only; Decoder.Token and streams of more than two values; float formatting with symbolic values (ints are concrete)", "reflect is a model (type/value semantics over the interpreter heap), shared by the fork and the standard library codec"],
    "outside_bound": ["templates outside the 8 listed, strings longer than 2 atoms, fold operands longer than 3+5 bytes"]}

ORACLE = H("H_Oracle", [{}], None, ["oracle/end"], "oracle self-check (concrete): the reference evaluators reproduce RFC 6902 appendix A, RFC 6901 section 5, RFC 7396 appendix A and an RFC 8259 accept/reject table; a failure makes the run inconclusive")
for pid in ("C01", "C02", "C03", "C05", "C06", "C07", "C08", "C13", "C14", "C15", "C16"):
    R[pid]["harnesses"].append(ORACLE)
R["C18"]["harnesses"].append(dict(ORACLE, target="legacy"))
R["C19"]["harnesses"].append(dict(ORACLE, target="legacy"))

if __name__ == "__main__":
    json.dump(R, open(os.path.join(V, "harness", "registry.json"), "w"), indent=1)
    print("registry:", sorted(R))
