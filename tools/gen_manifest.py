#!/usr/bin/env python3
"""Regenerates /verif/MANIFEST.json from harness/registry.json and tools/claims.json.
A property is claimed iff it has an entry in both files; everything else goes under not_applicable."""
import json, os
V = os.path.dirname(os.path.dirname(os.path.abspath(__file__)))
reg = json.load(open(os.path.join(V, "harness", "registry.json")))
claims = json.load(open(os.path.join(V, "tools", "claims.json")))
props = [json.loads(l) for l in open(os.path.join(V, "properties.jsonl"))]
checks, na = [], []
for p in props:
    pid = p["id"]
    c = claims.get(pid, {})
    if pid in reg and c.get("claimed"):
        e = {
            "property_id": pid,
            "quick_cmd": "./check %s quick" % pid,
            "thorough_cmd": "./check %s thorough" % pid,
            "evidence_file": "/verif/evidence/%s.json" % pid,
            "replay_cmd_template": "./check replay {path}",
            "engine": "gosx",
            "level_claimed": {
                "category": "model_checking",
                "text": c["text"],
                "design_ref": c.get("design_ref", "DESIGN.md section 5, " + pid),
            },
            "level_note": c["note"],
            "technique": c.get("technique", "bounded symbolic execution of the go/ssa of /repo (rebuilt on every run): inputs are symbolic bit-vector bytes/ints, every property assertion is decided by z3 5.1.0 under the path condition (cvc5 cross-check in thorough), branch feasibility by z3 or - for conditions over small finite domains - by exact evaluation that is audited against z3; every counterexample is replayed against the natively compiled library before it is reported"),
        }
        checks.append(e)
    else:
        na.append({"property_id": pid, "reason": c.get("na_reason", "check not built yet (engine and harness library exist; harness for this property pending)")})
m = {
    "version": 1,
    "setup_cmd": "cd /verif && ./setup.sh",
    "hooks": {
        "guard": "verif",
        "enable": "none needed: harnesses are injected with go/packages overlays (virtual directories inside the module); no source change in /repo is required by any check",
        "baseline_off_cmd": "cd /repo/v5 && GOFLAGS=-mod=mod GOPROXY=off go test -vet=off -count=1 ./...",
        "source_commits": [],
        "add_only": True,
    },
    "engines": [{
        "name": "gosx", "path": "/verif/engine",
        "serves_properties": [c["property_id"] for c in checks],
        "kind_free_text": "symbolic executor for go/ssa written here: concrete heap, symbolic scalars as hash-consed bit-vector terms, decision-log DFS over solver-decided branches, z3 5.1.0 back end (cvc5 cross-check in thorough), native twin of every harness for replay",
    }],
    "checks": checks,
    "not_applicable": na,
    "notes": "exit codes of ./check: 0 = every explored path held and the run was complete; 1 = natively confirmed violation (VIOLATION line); 2 = inconclusive (never a VIOLATION line). Fix commits in /repo are listed in known_findings.json.",
}
json.dump(m, open(os.path.join(V, "MANIFEST.json"), "w"), indent=1)
print("claimed:", [c["property_id"] for c in checks])
