#!/bin/bash
# usage: tools/process_mutant.sh <id> [legacy]   — verify the change in /tmp/wt/<id>, store it under seeded/<id>, remove the agent's worktree
export GOFLAGS=-mod=mod GOPROXY=off GOSUMDB=off GOTOOLCHAIN=local
id=$1; kind=${2:-v5}; V=/verif
legacy_test() { t=$(mktemp -d /tmp/leg-XXXX); cp $1/*.go $t/ 2>/dev/null; rm -f $t/zz_demo*; [ -n "$2" ] && cp $2 $t/; printf 'module github.com/evanphx/json-patch\n\ngo 1.18\n\nrequire github.com/pkg/errors v0.9.1\n' > $t/go.mod; cp /repo/v5/go.sum $t/ ; (cd $t && go test -vet=off -count=1 -run "$3" . 2>&1 | tail -2 | tr '\n' ' '); rm -rf $t; echo; }
echo "=== $id"
if [ "$kind" = legacy ]; then
  wt=$(mktemp -d /tmp/mutv-XXXX); rmdir $wt; git -C /repo worktree add -q --detach $wt HEAD
  echo -n "demo without: "; legacy_test $wt /tmp/wt/$id/zz_demo_test.go 'ZZDemo|Demo'
  (cd $wt && git apply /tmp/wt/$id/patch.diff) || echo PATCH FAIL
  echo -n "root suite with: "; legacy_test $wt "" 'Test'
  echo -n "v5 suite with: "; (cd $wt/v5 && go test -vet=off -count=1 ./... 2>&1 | tail -2 | tr '\n' ' '); echo
  echo -n "demo with: "; legacy_test $wt /tmp/wt/$id/zz_demo_test.go 'ZZDemo|Demo'
  mkdir -p $V/seeded/$id; (cd $wt && git diff HEAD > $V/seeded/$id/patch.diff); cp /tmp/wt/$id/zz_demo_test.go $V/seeded/$id/
  git -C /repo worktree remove --force $wt
else
  demo=$(ls /tmp/wt/$id/v5/zz_demo*_test.go 2>/dev/null | head -1)
  $V/tools/mutant.sh verify $id /tmp/wt/$id/patch.diff $demo v5 2>&1 | grep -E "^---|^ok|^FAIL|PATCH" | tr '\n' ' ' | cut -c1-300; echo
fi
cp /tmp/wt/$id/meta.txt $V/seeded/$id/ 2>/dev/null
git -C /repo worktree remove --force /tmp/wt/$id 2>/dev/null; rm -rf /tmp/wt/$id-demo; git -C /repo worktree prune
