#!/bin/sh
# Builds the engine offline from files on disk only.
set -e
cd "$(dirname "$0")"
export GOFLAGS=-mod=mod GOPROXY=off GOSUMDB=off GOTOOLCHAIN=local
mkdir -p bin evidence
(cd engine && go build -o ../bin/gosx .)
echo "setup ok"
