package main

// Models of standard-library leaves that have no SSA body (assembly, unsafe,
// runtime-internal) or that are deliberately opaque (fmt).

import (
	"fmt"
	"go/token"
	"go/types"
	"math"
	"strconv"
	"strings"

	"golang.org/x/tools/go/ssa"
)

type poolState struct {
	private    Value
	hasPrivate bool
	items      []Value
}

func bytesOf(v Value) []Value {
	switch x := v.(type) {
	case Slice:
		return x.a
	case string, *SymStr:
		return strBytes(x)
	}
	panic(fmt.Sprintf("bytesOf: %T", v))
}

// byteEq decides a == b for byte values, forking when symbolic.
func (i *Interp) byteEq(a, b Value) bool {
	ac, aok := a.(int64)
	bc, bok := b.(int64)
	if aok && bok {
		return ac == bc
	}
	return i.ex.decide(i.tt().Eq(i.toTerm(a, 8), i.toTerm(b, 8)))
}

func (i *Interp) indexByte(h []Value, c Value) int64 {
	for k, x := range h {
		if i.byteEq(x, c) {
			return int64(k)
		}
	}
	return -1
}

func (i *Interp) lastIndexByte(h []Value, c Value) int64 {
	for k := len(h) - 1; k >= 0; k-- {
		if i.byteEq(h[k], c) {
			return int64(k)
		}
	}
	return -1
}

func (i *Interp) matchAt(h, n []Value, at int) bool {
	// one decision for the whole window
	tt := i.tt()
	acc := tt.True
	for k := range n {
		a, b := h[at+k], n[k]
		ac, aok := a.(int64)
		bc, bok := b.(int64)
		if aok && bok {
			if ac != bc {
				return false
			}
			continue
		}
		acc = tt.And(acc, tt.Eq(i.toTerm(a, 8), i.toTerm(b, 8)))
	}
	return i.ex.decide(acc)
}

func (i *Interp) indexBytes(h, n []Value) int64 {
	if len(n) == 0 {
		return 0
	}
	for at := 0; at+len(n) <= len(h); at++ {
		if i.matchAt(h, n, at) {
			return int64(at)
		}
	}
	return -1
}

func (i *Interp) countBytes(h, n []Value) int64 {
	if len(n) == 0 {
		// utf8.RuneCount + 1: only concrete
		s, ok := mkStr(h).(string)
		if !ok {
			i.unsupported("Count with empty separator on symbolic string")
		}
		return int64(strings.Count(s, ""))
	}
	cnt := int64(0)
	for at := 0; at+len(n) <= len(h); {
		if i.matchAt(h, n, at) {
			cnt++
			at += len(n)
		} else {
			at++
		}
	}
	return cnt
}

func (i *Interp) compareBytes(a, b []Value) int64 {
	return int64(i.strCompare(mkStr(a), mkStr(b)))
}

func (i *Interp) newError(msg string) Value {
	fn := i.stdFunc("errors", "New")
	return i.call(nil, token.NoPos, fn, []Value{msg})
}

// errorString renders an error value by calling its Error method.
func (i *Interp) errorString(fr *frame, e Iface) Value {
	if e.t == nil {
		return "<nil>"
	}
	m := i.findMethod(e.t, "Error")
	if m == nil {
		return "?"
	}
	return i.call(fr, token.NoPos, m, []Value{e.v})
}

func (i *Interp) fmtArg(fr *frame, a Value, verb byte) Value {
	itf, ok := a.(Iface)
	if !ok {
		return "?"
	}
	if itf.t == nil {
		return "<nil>"
	}
	if verb == 'T' {
		return i.typeString(itf.t)
	}
	if m := i.findMethod(itf.t, "Error"); m != nil && verb != 'd' {
		if p, isPtr := itf.v.(*Value); isPtr && p == nil {
			return "<nil>"
		}
		return i.call(fr, token.NoPos, m, []Value{itf.v})
	}
	if m := i.findMethod(itf.t, "String"); m != nil && verb != 'd' && m.Signature.Params().Len() == 0 {
		if _, isRV := itf.v.(RValue); !isRV {
			if p, isPtr := itf.v.(*Value); !(isPtr && p == nil) {
				return i.call(fr, token.NoPos, m, []Value{itf.v})
			}
		}
	}
	switch v := itf.v.(type) {
	case string:
		if verb == 'q' {
			return strconv.Quote(v)
		}
		return v
	case *SymStr:
		return v
	case int64:
		if verb == 'c' {
			return string(rune(v))
		}
		if verb == 'x' {
			return strconv.FormatInt(v, 16)
		}
		if k, ok := intInfo(itf.t); ok && !k.signed {
			return strconv.FormatUint(uint64(v), 10)
		}
		return strconv.FormatInt(v, 10)
	case bool:
		return strconv.FormatBool(v)
	case float64:
		return strconv.FormatFloat(v, 'g', -1, 64)
	case Slice:
		if eb, ok := itf.t.Underlying().(*types.Slice); ok {
			if b, ok := eb.Elem().Underlying().(*types.Basic); ok && b.Kind() == types.Uint8 && (verb == 's' || verb == 'q') {
				return mkStr(v.a)
			}
		}
	case *Term:
		return "?"
	}
	return "?"
}

// sprintf is a best-effort formatter: message texts are not part of any property.
func (i *Interp) sprintf(fr *frame, format Value, args []Value) (Value, []Iface) {
	f, ok := format.(string)
	if !ok {
		return i.sprintfSym(fr, bytesOf(format), args)
	}
	var out Value = ""
	var wrapped []Iface
	ai := 0
	for k := 0; k < len(f); k++ {
		c := f[k]
		if c != '%' {
			j := k
			for j < len(f) && f[j] != '%' {
				j++
			}
			out = strConcat(out, f[k:j])
			k = j - 1
			continue
		}
		k++
		for k < len(f) && strings.IndexByte("+-# 0123456789.*[]", f[k]) >= 0 {
			k++
		}
		if k >= len(f) {
			break
		}
		verb := f[k]
		if verb == '%' {
			out = strConcat(out, "%")
			continue
		}
		if ai >= len(args) {
			out = strConcat(out, "%!"+string(verb)+"(MISSING)")
			continue
		}
		a := args[ai]
		ai++
		if verb == 'w' {
			if e, ok := a.(Iface); ok {
				wrapped = append(wrapped, e)
			}
			verb = 'v'
		}
		out = strConcat(out, i.fmtArg(fr, a, verb))
	}
	return out, wrapped
}

// sprintfSym handles a format string with symbolic bytes (for example a document member name spliced into
// the format): the text stays opaque ("?"), but which operands are consumed by which verb - and therefore
// which errors %w wraps - is computed exactly, forking on every byte that may be a '%', a flag or a verb.
func (i *Interp) sprintfSym(fr *frame, f []Value, args []Value) (Value, []Iface) {
	var wrapped []Iface
	ai := 0
	isOneOf := func(b Value, set string) bool {
		for k := 0; k < len(set); k++ {
			if i.byteEq(b, int64(set[k])) {
				return true
			}
		}
		return false
	}
	for k := 0; k < len(f); k++ {
		if !i.byteEq(f[k], int64('%')) {
			continue
		}
		k++
		for k < len(f) && isOneOf(f[k], "+-# 0123456789.*[]") {
			k++
		}
		if k >= len(f) {
			break
		}
		if i.byteEq(f[k], int64('%')) {
			continue
		}
		if ai >= len(args) {
			continue
		}
		a := args[ai]
		ai++
		if i.byteEq(f[k], int64('w')) {
			if e, ok := a.(Iface); ok {
				wrapped = append(wrapped, e)
			}
		}
	}
	return "?", wrapped
}

func (i *Interp) registerStd() {
	R := func(name string, f intrinsic) { i.intrinsics[name] = f }

	// ---- internal/bytealg, stringslite, bytes/strings leaves
	R("internal/bytealg.IndexByte", func(fr *frame, a []Value) Value { return i.indexByte(bytesOf(a[0]), a[1]) })
	R("internal/bytealg.IndexByteString", func(fr *frame, a []Value) Value { return i.indexByte(bytesOf(a[0]), a[1]) })
	R("internal/bytealg.LastIndexByte", func(fr *frame, a []Value) Value { return i.lastIndexByte(bytesOf(a[0]), a[1]) })
	R("internal/bytealg.LastIndexByteString", func(fr *frame, a []Value) Value { return i.lastIndexByte(bytesOf(a[0]), a[1]) })
	R("internal/bytealg.Count", func(fr *frame, a []Value) Value { return i.countBytes(bytesOf(a[0]), []Value{a[1]}) })
	R("internal/bytealg.CountString", func(fr *frame, a []Value) Value { return i.countBytes(bytesOf(a[0]), []Value{a[1]}) })
	R("internal/bytealg.Index", func(fr *frame, a []Value) Value { return i.indexBytes(bytesOf(a[0]), bytesOf(a[1])) })
	R("internal/bytealg.IndexString", func(fr *frame, a []Value) Value { return i.indexBytes(bytesOf(a[0]), bytesOf(a[1])) })
	R("internal/bytealg.Compare", func(fr *frame, a []Value) Value { return i.compareBytes(bytesOf(a[0]), bytesOf(a[1])) })
	R("internal/bytealg.CompareString", func(fr *frame, a []Value) Value { return i.compareBytes(bytesOf(a[0]), bytesOf(a[1])) })
	R("internal/bytealg.Equal", func(fr *frame, a []Value) Value { return i.strEq(mkStr(bytesOf(a[0])), mkStr(bytesOf(a[1]))) })
	R("internal/bytealg.MakeNoZero", func(fr *frame, a []Value) Value {
		n := int(i.concInt(a[0], "MakeNoZero"))
		s := make([]Value, n)
		for k := range s {
			s[k] = int64(0)
		}
		return Slice{s}
	})
	R("strings.Index", func(fr *frame, a []Value) Value { return i.indexBytes(bytesOf(a[0]), bytesOf(a[1])) })
	R("bytes.Index", func(fr *frame, a []Value) Value { return i.indexBytes(bytesOf(a[0]), bytesOf(a[1])) })
	R("internal/stringslite.Index", func(fr *frame, a []Value) Value { return i.indexBytes(bytesOf(a[0]), bytesOf(a[1])) })
	R("strings.IndexByte", func(fr *frame, a []Value) Value { return i.indexByte(bytesOf(a[0]), a[1]) })
	R("bytes.IndexByte", func(fr *frame, a []Value) Value { return i.indexByte(bytesOf(a[0]), a[1]) })
	R("internal/stringslite.IndexByte", func(fr *frame, a []Value) Value { return i.indexByte(bytesOf(a[0]), a[1]) })
	R("strings.Count", func(fr *frame, a []Value) Value { return i.countBytes(bytesOf(a[0]), bytesOf(a[1])) })
	R("bytes.Count", func(fr *frame, a []Value) Value { return i.countBytes(bytesOf(a[0]), bytesOf(a[1])) })
	R("bytes.Equal", func(fr *frame, a []Value) Value { return i.strEq(mkStr(bytesOf(a[0])), mkStr(bytesOf(a[1]))) })
	R("bytes.Compare", func(fr *frame, a []Value) Value { return i.compareBytes(bytesOf(a[0]), bytesOf(a[1])) })
	R("strings.Compare", func(fr *frame, a []Value) Value { return i.compareBytes(bytesOf(a[0]), bytesOf(a[1])) })
	R("internal/stringslite.Clone", func(fr *frame, a []Value) Value { return a[0] })
	R("strings.Clone", func(fr *frame, a []Value) Value { return a[0] })
	R("(*strings.Builder).String", func(fr *frame, a []Value) Value {
		b := (*a[0].(*Value)).(Struct)
		// fields: addr *Builder, buf []byte
		return mkStr(b[1].(Slice).a)
	})
	R("(*strings.Builder).copyCheck", func(fr *frame, a []Value) Value { return nil })
	R("internal/abi.NoEscape", func(fr *frame, a []Value) Value { return a[0] })
	R("internal/abi.Escape", func(fr *frame, a []Value) Value { return a[0] })
	R("runtime.KeepAlive", func(fr *frame, a []Value) Value { return nil })
	R("runtime.SetFinalizer", func(fr *frame, a []Value) Value { return nil })
	R("runtime.GC", func(fr *frame, a []Value) Value { return nil })
	R("internal/race.Enabled", func(fr *frame, a []Value) Value { return false })
	for _, n := range []string{"Acquire", "Release", "ReleaseMerge", "Disable", "Enable", "Read", "Write", "ReadRange", "WriteRange"} {
		R("internal/race."+n, func(fr *frame, a []Value) Value { return nil })
	}
	R("internal/godebug.New", func(fr *frame, a []Value) Value { return (*Value)(nil) })
	R("(*internal/godebug.Setting).Value", func(fr *frame, a []Value) Value { return "" })
	R("(*internal/godebug.Setting).IncNonDefault", func(fr *frame, a []Value) Value { return nil })

	// ---- math bits
	R("math.Float64bits", func(fr *frame, a []Value) Value { return int64(math.Float64bits(a[0].(float64))) })
	R("math.Float64frombits", func(fr *frame, a []Value) Value { return math.Float64frombits(uint64(i.concInt(a[0], "frombits"))) })
	R("math.Float32bits", func(fr *frame, a []Value) Value { return int64(math.Float32bits(float32(a[0].(float64)))) })
	R("math.Float32frombits", func(fr *frame, a []Value) Value {
		return float64(math.Float32frombits(uint32(i.concInt(a[0], "frombits"))))
	})
	R("math.IsInf", func(fr *frame, a []Value) Value { return math.IsInf(a[0].(float64), int(a[1].(int64))) })
	R("math.IsNaN", func(fr *frame, a []Value) Value { return math.IsNaN(a[0].(float64)) })
	R("math.Abs", func(fr *frame, a []Value) Value { return math.Abs(a[0].(float64)) })
	R("math.Inf", func(fr *frame, a []Value) Value { return math.Inf(int(a[0].(int64))) })
	R("math.NaN", func(fr *frame, a []Value) Value { return math.NaN() })
	R("math.Floor", func(fr *frame, a []Value) Value { return math.Floor(a[0].(float64)) })
	R("math.Trunc", func(fr *frame, a []Value) Value { return math.Trunc(a[0].(float64)) })
	R("math.Log2", func(fr *frame, a []Value) Value { return math.Log2(a[0].(float64)) })
	R("math.Ldexp", func(fr *frame, a []Value) Value { return math.Ldexp(a[0].(float64), int(a[1].(int64))) })
	R("strconv.ParseFloat", func(fr *frame, a []Value) Value {
		s, ok := a[0].(string)
		if !ok {
			// float conversion is not encoded: the bytes of a symbolic literal are concretised one by one
			// (each value of each byte is its own path), then the real conversion runs
			ss, isSym := a[0].(*SymStr)
			if !isSym {
				i.unsupported("strconv.ParseFloat on " + fmt.Sprintf("%T", a[0]))
			}
			buf := make([]byte, len(ss.b))
			for k, c := range ss.b {
				buf[k] = byte(i.concInt(c, "ParseFloat byte"))
			}
			s = string(buf)
		}
		f, err := strconv.ParseFloat(s, int(a[1].(int64)))
		if err != nil {
			return Tuple{f, i.newError("strconv.ParseFloat: parsing " + strconv.Quote(s) + ": " + err.(*strconv.NumError).Err.Error())}
		}
		return Tuple{f, Iface{}}
	})
	R("strconv.AppendFloat", func(fr *frame, a []Value) Value {
		dst := a[0].(Slice)
		b := strconv.AppendFloat(nil, a[1].(float64), byte(a[2].(int64)), int(a[3].(int64)), int(a[4].(int64)))
		out := append([]Value(nil), dst.a...)
		for _, c := range b {
			out = append(out, int64(c))
		}
		return Slice{out}
	})
	R("strconv.FormatFloat", func(fr *frame, a []Value) Value {
		return strconv.FormatFloat(a[0].(float64), byte(a[1].(int64)), int(a[2].(int64)), int(a[3].(int64)))
	})

	// ---- sync
	R("(*sync.Pool).Get", func(fr *frame, a []Value) Value {
		p := a[0].(*Value)
		ps := i.pools[p]
		// the discipline of the real pool on one goroutine without a GC cycle: the private slot first, then the
		// shared list newest first (the order is unspecified by the API; this is the order the native twin sees)
		if ps != nil && ps.hasPrivate {
			v := ps.private
			ps.private, ps.hasPrivate = nil, false
			return v
		}
		if ps != nil && len(ps.items) > 0 {
			v := ps.items[len(ps.items)-1]
			ps.items = ps.items[:len(ps.items)-1]
			return v
		}
		// call New if set
		st := (*p).(Struct)
		pt := deref(fr.fn.Signature.Recv().Type()).Underlying().(*types.Struct)
		for k := 0; k < pt.NumFields(); k++ {
			if pt.Field(k).Name() == "New" {
				if _, isNil := st[k].(nilFunc); !isNil && st[k] != nil {
					return i.call(fr, token.NoPos, st[k], nil)
				}
			}
		}
		return Iface{}
	})
	R("(*sync.Pool).Put", func(fr *frame, a []Value) Value {
		p := a[0].(*Value)
		if x, ok := a[1].(Iface); ok && x.t == nil {
			return nil
		}
		ps := i.pools[p]
		if ps == nil {
			ps = &poolState{}
			i.pools[p] = ps
		}
		if !ps.hasPrivate {
			ps.private, ps.hasPrivate = a[1], true
			return nil
		}
		ps.items = append(ps.items, a[1])
		return nil
	})
	syncMap := func(p *Value) *MapObj {
		m := i.syncMaps[p]
		if m == nil {
			m = newMap()
			i.syncMaps[p] = m
		}
		return m
	}
	R("(*sync.Map).Load", func(fr *frame, a []Value) Value {
		v, ok := syncMap(a[0].(*Value)).lookup(i, a[1])
		if !ok {
			return Tuple{Iface{}, false}
		}
		return Tuple{v, true}
	})
	R("(*sync.Map).Store", func(fr *frame, a []Value) Value {
		syncMap(a[0].(*Value)).insert(i, a[1], a[2])
		return nil
	})
	R("(*sync.Map).LoadOrStore", func(fr *frame, a []Value) Value {
		m := syncMap(a[0].(*Value))
		if v, ok := m.lookup(i, a[1]); ok {
			return Tuple{v, true}
		}
		m.insert(i, a[1], a[2])
		return Tuple{a[2], false}
	})
	R("(*sync.Map).Delete", func(fr *frame, a []Value) Value {
		syncMap(a[0].(*Value)).delete(i, a[1])
		return nil
	})
	R("(*sync.Once).Do", func(fr *frame, a []Value) Value {
		p := a[0].(*Value)
		st := (*p).(Struct)
		// field 0: done (atomic.Uint32 struct{_ noCopy; v uint32}) or uint32 depending on version
		if i.onceDone[p] {
			return nil
		}
		i.onceDone[p] = true
		_ = st
		i.call(fr, token.NoPos, a[1], nil)
		return nil
	})
	for _, n := range []string{"(*sync.Mutex).Lock", "(*sync.Mutex).Unlock", "(*sync.RWMutex).Lock", "(*sync.RWMutex).Unlock",
		"(*sync.RWMutex).RLock", "(*sync.RWMutex).RUnlock"} {
		R(n, func(fr *frame, a []Value) Value { return nil })
	}
	R("(*sync.Mutex).TryLock", func(fr *frame, a []Value) Value { return true })
	R("(*sync.WaitGroup).Add", func(fr *frame, a []Value) Value {
		i.wgCount[a[0].(*Value)] += a[1].(int64)
		return nil
	})
	R("(*sync.WaitGroup).Done", func(fr *frame, a []Value) Value {
		i.wgCount[a[0].(*Value)]--
		return nil
	})
	R("(*sync.WaitGroup).Wait", func(fr *frame, a []Value) Value {
		if i.wgCount[a[0].(*Value)] != 0 {
			i.unsupported("WaitGroup.Wait with non-zero counter (would block)")
		}
		return nil
	})

	// ---- fmt (opaque text, %w chain kept)
	R("fmt.Errorf", func(fr *frame, a []Value) Value {
		msg, wrapped := i.sprintf(fr, a[0], a[1].(Slice).a)
		fmtPkg := i.prog.ImportedPackage("fmt")
		switch len(wrapped) {
		case 0:
			return i.newError2(msg)
		case 1:
			t := fmtPkg.Type("wrapError").Type()
			cell := newCell(Struct{msg, wrapped[0]})
			return Iface{t: types.NewPointer(t), v: cell}
		default:
			t := fmtPkg.Type("wrapErrors").Type()
			es := make([]Value, len(wrapped))
			for k, w := range wrapped {
				es[k] = w
			}
			cell := newCell(Struct{msg, Slice{es}})
			return Iface{t: types.NewPointer(t), v: cell}
		}
	})
	R("fmt.Sprintf", func(fr *frame, a []Value) Value {
		msg, _ := i.sprintf(fr, a[0], a[1].(Slice).a)
		return msg
	})
	R("fmt.Sprint", func(fr *frame, a []Value) Value {
		var out Value = ""
		for _, x := range a[0].(Slice).a {
			out = strConcat(out, i.fmtArg(fr, x, 'v'))
		}
		return out
	})
	R("fmt.Sprintln", func(fr *frame, a []Value) Value {
		var out Value = ""
		for k, x := range a[0].(Slice).a {
			if k > 0 {
				out = strConcat(out, " ")
			}
			out = strConcat(out, i.fmtArg(fr, x, 'v'))
		}
		return strConcat(out, "\n")
	})

	// ---- errors.Is / errors.As (semantic re-implementation; the chain is walked through the real Unwrap/Is/As methods)
	R("errors.Is", func(fr *frame, a []Value) Value {
		return i.errorsIs(fr, a[0].(Iface), a[1].(Iface))
	})
	R("errors.As", func(fr *frame, a []Value) Value {
		return i.errorsAs(fr, a[0].(Iface), a[1].(Iface))
	})

	// ---- sort.Slice (uses reflectlite.Swapper)
	R("sort.Slice", func(fr *frame, a []Value) Value { i.sortSlice(fr, a[0].(Iface).v.(Slice), a[1], false); return nil })
	R("sort.SliceStable", func(fr *frame, a []Value) Value { i.sortSlice(fr, a[0].(Iface).v.(Slice), a[1], true); return nil })

	// ---- message formatting that no property speaks about (opaque)
	R("strconv.Quote", func(fr *frame, a []Value) Value { return strConcat(strConcat("\"", a[0]), "\"") })
	for _, p := range []string{"github.com/evanphx/json-patch/v5/internal/json", "encoding/json"} {
		R(p+".quoteChar", func(fr *frame, a []Value) Value { return "'?'" })
	}

	// ---- misc
	R("os.Getenv", func(fr *frame, a []Value) Value { return "" })
	R("time.Now", func(fr *frame, a []Value) Value { i.unsupported("time.Now"); return nil })
	R("unicode/utf8.ValidString", nil)
	delete(i.intrinsics, "unicode/utf8.ValidString")
}

func (i *Interp) newError2(msg Value) Value {
	fn := i.stdFunc("errors", "New")
	return i.call(nil, token.NoPos, fn, []Value{msg})
}

func (i *Interp) sortSlice(fr *frame, s Slice, less Value, stable bool) {
	// insertion sort (stable), calling the target's less(i, j)
	n := len(s.a)
	for a := 1; a < n; a++ {
		for b := a; b > 0; b-- {
			r := i.call(fr, token.NoPos, less, []Value{int64(b), int64(b - 1)})
			if !i.truth(r) {
				break
			}
			s.a[b], s.a[b-1] = s.a[b-1], s.a[b]
		}
	}
}

func (i *Interp) unwrapErr(fr *frame, e Iface) (single Iface, multi []Iface, ok bool) {
	if m := i.findMethod(e.t, "Unwrap"); m != nil && m.Signature.Params().Len() == 0 && m.Signature.Results().Len() == 1 {
		res := i.call(fr, token.NoPos, m, []Value{e.v})
		switch r := res.(type) {
		case Iface:
			return r, nil, true
		case Slice:
			for _, x := range r.a {
				multi = append(multi, x.(Iface))
			}
			return Iface{}, multi, true
		}
	}
	return Iface{}, nil, false
}

func (i *Interp) errorsIs(fr *frame, err, target Iface) Value {
	if err.t == nil || target.t == nil {
		return err.t == nil && target.t == nil
	}
	comparable := types.Comparable(target.t)
	var walk func(e Iface) bool
	walk = func(e Iface) bool {
		for {
			if comparable && e.t != nil && types.Identical(e.t, target.t) {
				if i.truth(i.equalVal(e.t, e.v, target.v)) {
					return true
				}
			}
			if m := i.findMethod(e.t, "Is"); m != nil && m.Signature.Params().Len() == 1 {
				if i.truth(i.call(fr, token.NoPos, m, []Value{e.v, target})) {
					return true
				}
			}
			single, multi, ok := i.unwrapErr(fr, e)
			if !ok {
				return false
			}
			if multi != nil {
				for _, x := range multi {
					if x.t != nil && walk(x) {
						return true
					}
				}
				return false
			}
			if single.t == nil {
				return false
			}
			e = single
		}
	}
	return walk(err)
}

func (i *Interp) errorsAs(fr *frame, err, target Iface) Value {
	if err.t == nil {
		return false
	}
	if target.t == nil {
		panic(targetPanic{Iface{t: types.Typ[types.String], v: "errors: target cannot be nil"}})
	}
	pt, ok := target.t.Underlying().(*types.Pointer)
	p, _ := target.v.(*Value)
	if !ok || p == nil {
		panic(targetPanic{Iface{t: types.Typ[types.String], v: "errors: target must be a non-nil pointer"}})
	}
	tt := pt.Elem()
	var walk func(e Iface) bool
	walk = func(e Iface) bool {
		for {
			assignable := false
			if it, isI := tt.Underlying().(*types.Interface); isI {
				assignable = types.Implements(e.t, it)
			} else {
				assignable = types.Identical(e.t, tt)
			}
			if assignable {
				if _, isI := tt.Underlying().(*types.Interface); isI {
					*p = e
				} else {
					*p = copyVal(e.v)
				}
				return true
			}
			if m := i.findMethod(e.t, "As"); m != nil && m.Signature.Params().Len() == 1 {
				if i.truth(i.call(fr, token.NoPos, m, []Value{e.v, target})) {
					return true
				}
			}
			single, multi, ok := i.unwrapErr(fr, e)
			if !ok {
				return false
			}
			if multi != nil {
				for _, x := range multi {
					if x.t != nil && walk(x) {
						return true
					}
				}
				return false
			}
			if single.t == nil {
				return false
			}
			e = single
		}
	}
	return walk(err)
}

var _ = ssa.BuilderMode(0)

// findMethod returns the exported method name of type t, or nil.
func (i *Interp) findMethod(t types.Type, name string) *ssa.Function {
	if t == nil {
		return nil
	}
	sel := i.prog.MethodSets.MethodSet(t).Lookup(nil, name)
	if sel == nil {
		return nil
	}
	return i.prog.MethodValue(sel)
}
