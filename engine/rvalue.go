package main

// Model of package reflect over the interpreter's heap. reflect.Type is a
// go/types type (canonicalised, so identity is pointer identity); reflect.Value
// is (type, cell, flags). Only what the two JSON codecs use is provided.

import (
	"fmt"
	"go/token"
	"go/types"
	"strings"

	"golang.org/x/tools/go/ssa"
	"golang.org/x/tools/go/types/typeutil"
)

type typeCanon struct {
	m typeutil.Map
}

func (c *typeCanon) canon(t types.Type) types.Type {
	if t == nil {
		return nil
	}
	t = types.Unalias(t)
	if v := c.m.At(t); v != nil {
		return v.(types.Type)
	}
	c.m.Set(t, t)
	return t
}

type RType struct {
	t types.Type // canonical
}

type RValue struct {
	t    types.Type // nil => invalid Value
	p    *Value
	addr bool
	ro   bool // read-only: obtained through an unexported field (sticky) or an embedded unexported field
	sro  bool // the sticky part of ro (reflect's flagStickyRO); an exported field of an embedded unexported struct is settable again
}

const (
	kInvalid = iota
	kBool
	kInt
	kInt8
	kInt16
	kInt32
	kInt64
	kUint
	kUint8
	kUint16
	kUint32
	kUint64
	kUintptr
	kFloat32
	kFloat64
	kComplex64
	kComplex128
	kArray
	kChan
	kFunc
	kInterface
	kMap
	kPointer
	kSlice
	kString
	kStruct
	kUnsafePointer
)

func kindOf(t types.Type) int64 {
	switch u := t.Underlying().(type) {
	case *types.Basic:
		switch u.Kind() {
		case types.Bool, types.UntypedBool:
			return kBool
		case types.Int, types.UntypedInt:
			return kInt
		case types.Int8:
			return kInt8
		case types.Int16:
			return kInt16
		case types.Int32, types.UntypedRune:
			return kInt32
		case types.Int64:
			return kInt64
		case types.Uint:
			return kUint
		case types.Uint8:
			return kUint8
		case types.Uint16:
			return kUint16
		case types.Uint32:
			return kUint32
		case types.Uint64:
			return kUint64
		case types.Uintptr:
			return kUintptr
		case types.Float32:
			return kFloat32
		case types.Float64, types.UntypedFloat:
			return kFloat64
		case types.Complex64:
			return kComplex64
		case types.Complex128:
			return kComplex128
		case types.String, types.UntypedString:
			return kString
		case types.UnsafePointer:
			return kUnsafePointer
		}
	case *types.Array:
		return kArray
	case *types.Chan:
		return kChan
	case *types.Signature:
		return kFunc
	case *types.Interface:
		return kInterface
	case *types.Map:
		return kMap
	case *types.Pointer:
		return kPointer
	case *types.Slice:
		return kSlice
	case *types.Struct:
		return kStruct
	}
	panic("kindOf: " + t.String())
}

func (i *Interp) rtypeIface(t types.Type) Value {
	if t == nil {
		return Iface{}
	}
	return Iface{t: i.rtypeT, v: RType{i.canon.canon(t)}}
}

func newCell(v Value) *Value {
	p := new(Value)
	*p = v
	return p
}

func (i *Interp) rv(t types.Type, v Value) RValue {
	return RValue{t: i.canon.canon(t), p: newCell(copyVal(v))}
}

func (v RValue) get() Value { return *v.p }

func (i *Interp) rpanic(msg string) {
	panic(targetPanic{Iface{t: types.Typ[types.String], v: "reflect: " + msg}})
}

func (i *Interp) mustSettable(v RValue, what string) {
	if v.t == nil {
		i.rpanic(what + " on zero Value")
	}
	if !v.addr || v.ro {
		i.rpanic(what + " using unaddressable value")
	}
}

func argRV(a Value) RValue { return a.(RValue) }

// assignTo converts the value held by x for storing in a location of type dst
// (wrapping in an interface when dst is an interface type).
func (i *Interp) assignTo(x RValue, dst types.Type) Value {
	if _, isIface := dst.Underlying().(*types.Interface); isIface {
		if _, srcIface := x.t.Underlying().(*types.Interface); srcIface {
			return x.get()
		}
		return Iface{t: x.t, v: copyVal(x.get())}
	}
	return copyVal(x.get())
}

func exportedName(n string) bool {
	return n != "" && n[0] >= 'A' && n[0] <= 'Z' || (n != "" && token.IsExported(n))
}

func (i *Interp) numMethod(t types.Type) int64 {
	if it, ok := t.Underlying().(*types.Interface); ok {
		return int64(it.NumMethods())
	}
	ms := i.prog.MethodSets.MethodSet(t)
	n := 0
	for k := 0; k < ms.Len(); k++ {
		if ms.At(k).Obj().Exported() {
			n++
		}
	}
	return int64(n)
}

func (i *Interp) typeString(t types.Type) string {
	return types.TypeString(t, func(p *types.Package) string { return p.Name() })
}

func (i *Interp) structFieldValue(st *types.Struct, k int, sfType types.Type) Value {
	f := st.Field(k)
	// reflect.StructField{Name, PkgPath, Type, Tag, Offset, Index, Anonymous}
	sft := sfType.Underlying().(*types.Struct)
	out := make(Struct, sft.NumFields())
	for j := 0; j < sft.NumFields(); j++ {
		out[j] = zero(sft.Field(j).Type())
		switch sft.Field(j).Name() {
		case "Name":
			out[j] = f.Name()
		case "PkgPath":
			if !f.Exported() && f.Pkg() != nil {
				out[j] = f.Pkg().Path()
			}
		case "Type":
			out[j] = i.rtypeIface(f.Type())
		case "Tag":
			out[j] = st.Tag(k)
		case "Index":
			out[j] = Slice{[]Value{int64(k)}}
		case "Anonymous":
			out[j] = f.Embedded()
		}
	}
	return out
}

func (i *Interp) callRTypeMethod(fr *frame, name string, args []Value) Value {
	t := args[0].(RType).t
	switch name {
	case "Kind":
		return kindOf(t)
	case "Elem":
		switch u := t.Underlying().(type) {
		case *types.Pointer:
			return i.rtypeIface(u.Elem())
		case *types.Slice:
			return i.rtypeIface(u.Elem())
		case *types.Array:
			return i.rtypeIface(u.Elem())
		case *types.Map:
			return i.rtypeIface(u.Elem())
		case *types.Chan:
			return i.rtypeIface(u.Elem())
		}
		i.rpanic("Elem of invalid type " + t.String())
	case "Key":
		return i.rtypeIface(t.Underlying().(*types.Map).Key())
	case "Len":
		return t.Underlying().(*types.Array).Len()
	case "Name":
		switch n := t.(type) {
		case *types.Named:
			return n.Obj().Name()
		case *types.Basic:
			return n.Name()
		}
		return ""
	case "PkgPath":
		if n, ok := t.(*types.Named); ok && n.Obj().Pkg() != nil {
			return n.Obj().Pkg().Path()
		}
		return ""
	case "String":
		return i.typeString(t)
	case "NumMethod":
		return i.numMethod(t)
	case "Implements":
		u := args[1].(Iface).v.(RType).t
		it, ok := u.Underlying().(*types.Interface)
		if !ok {
			i.rpanic("non-interface type passed to Type.Implements")
		}
		return types.Implements(t, it)
	case "AssignableTo":
		return types.AssignableTo(t, args[1].(Iface).v.(RType).t)
	case "ConvertibleTo":
		return types.ConvertibleTo(t, args[1].(Iface).v.(RType).t)
	case "Comparable":
		return types.Comparable(t)
	case "NumField":
		return int64(t.Underlying().(*types.Struct).NumFields())
	case "Field":
		st := t.Underlying().(*types.Struct)
		k := int(i.concInt(args[1], "Type.Field"))
		sig := i.reflectTypeMethodSig("Field")
		return i.structFieldValue(st, k, sig.Results().At(0).Type())
	case "Bits":
		switch kindOf(t) {
		case kInt8, kUint8:
			return int64(8)
		case kInt16, kUint16:
			return int64(16)
		case kInt32, kUint32, kFloat32:
			return int64(32)
		case kInt, kInt64, kUint, kUint64, kUintptr, kFloat64, kComplex64:
			return int64(64)
		case kComplex128:
			return int64(128)
		}
		i.rpanic("Bits of non-arithmetic Type " + t.String())
	case "Size":
		return int64(8)
	case "OverflowInt", "OverflowUint", "OverflowFloat":
		return i.overflow(t, args[1])
	}
	i.unsupported("reflect.Type." + name)
	return nil
}

func (i *Interp) reflectTypeMethodSig(name string) *types.Signature {
	pkg := i.prog.ImportedPackage("reflect")
	it := pkg.Pkg.Scope().Lookup("Type").Type().Underlying().(*types.Interface)
	for k := 0; k < it.NumMethods(); k++ {
		if it.Method(k).Name() == name {
			return it.Method(k).Type().(*types.Signature)
		}
	}
	panic("no reflect.Type method " + name)
}

func (i *Interp) overflow(t types.Type, x Value) Value {
	k := kindOf(t)
	switch k {
	case kInt, kInt64, kUint, kUint64, kUintptr:
		return false
	case kFloat64:
		return false
	case kFloat32:
		f := x.(float64)
		if f < 0 {
			f = -f
		}
		return 3.40282346638528859811704183484516925440e+38 < f && f <= 1.79769313486231570814527423731704356798070e+308
	}
	ik, _ := intInfo(t)
	switch v := x.(type) {
	case int64:
		return normInt(ik, v) != v
	case *Term:
		tt := i.tt()
		tr := tt.Trunc(v, ik.w)
		var back *Term
		if ik.signed {
			back = tt.SExt(tr, 64)
		} else {
			back = tt.ZExt(tr, 64)
		}
		return boolVal(tt.Not(tt.Eq(back, v)))
	}
	panic("overflow")
}

func (i *Interp) elemOfContainer(v RValue) types.Type {
	switch u := v.t.Underlying().(type) {
	case *types.Slice:
		return u.Elem()
	case *types.Array:
		return u.Elem()
	case *types.Map:
		return u.Elem()
	case *types.Pointer:
		return u.Elem()
	}
	panic("elemOfContainer " + v.t.String())
}

type mapIterObj struct {
	it  *mapIter
	m   RValue
	k   Value
	v   Value
	has bool
}

func (i *Interp) registerReflect() {
	R := func(name string, f intrinsic) { i.intrinsics[name] = f }

	R("reflect.TypeOf", func(fr *frame, a []Value) Value {
		return i.rtypeIface(a[0].(Iface).t)
	})
	R("reflect.ValueOf", func(fr *frame, a []Value) Value {
		x := a[0].(Iface)
		if x.t == nil {
			return RValue{}
		}
		return i.rv(x.t, x.v)
	})
	R("reflect.PointerTo", func(fr *frame, a []Value) Value {
		return i.rtypeIface(types.NewPointer(a[0].(Iface).v.(RType).t))
	})
	i.intrinsics["reflect.PtrTo"] = i.intrinsics["reflect.PointerTo"]
	i.intrinsics["internal/reflectlite.TypeOf"] = i.intrinsics["reflect.TypeOf"]
	R("reflect.New", func(fr *frame, a []Value) Value {
		t := a[0].(Iface).v.(RType).t
		cell := newCell(zero(t))
		return RValue{t: i.canon.canon(types.NewPointer(t)), p: newCell(cell)}
	})
	R("reflect.Zero", func(fr *frame, a []Value) Value {
		t := a[0].(Iface).v.(RType).t
		return i.rv(t, zero(t))
	})
	R("reflect.MakeMap", func(fr *frame, a []Value) Value {
		return i.rv(a[0].(Iface).v.(RType).t, newMap())
	})
	R("reflect.MakeMapWithSize", func(fr *frame, a []Value) Value {
		return i.rv(a[0].(Iface).v.(RType).t, newMap())
	})
	R("reflect.MakeSlice", func(fr *frame, a []Value) Value {
		t := a[0].(Iface).v.(RType).t
		n := int(i.concInt(a[1], "MakeSlice len"))
		c := int(i.concInt(a[2], "MakeSlice cap"))
		et := t.Underlying().(*types.Slice).Elem()
		s := make([]Value, c)
		for k := range s {
			s[k] = zero(et)
		}
		return i.rv(t, Slice{s[:n]})
	})
	R("reflect.Copy", func(fr *frame, a []Value) Value {
		dst, src := argRV(a[0]), argRV(a[1])
		var d, s []Value
		switch x := dst.get().(type) {
		case Slice:
			d = x.a
		case Array:
			d = x
		}
		switch x := src.get().(type) {
		case Slice:
			s = x.a
		case Array:
			s = x
		case string, *SymStr:
			s = strBytes(x)
		}
		n := len(s)
		if len(d) < n {
			n = len(d)
		}
		for k := 0; k < n; k++ {
			d[k] = copyVal(s[k])
		}
		return int64(n)
	})
	R("reflect.Append", func(fr *frame, a []Value) Value {
		s := argRV(a[0])
		sl := s.get().(Slice)
		out := append([]Value(nil), sl.a...)
		for _, x := range a[1].(Slice).a {
			out = append(out, i.assignTo(x.(RValue), i.elemOfContainer(s)))
		}
		return i.rv(s.t, Slice{out})
	})
	R("reflect.Indirect", func(fr *frame, a []Value) Value {
		v := argRV(a[0])
		if v.t != nil && kindOf(v.t) == kPointer {
			return i.rvElem(v)
		}
		return v
	})
	R("reflect.Swapper", func(fr *frame, a []Value) Value {
		i.unsupported("reflect.Swapper")
		return nil
	})
	R("reflect.DeepEqual", func(fr *frame, a []Value) Value {
		i.unsupported("reflect.DeepEqual")
		return nil
	})

	M := func(name string, f func(fr *frame, v RValue, a []Value) Value) {
		i.intrinsics["(reflect.Value)."+name] = func(fr *frame, a []Value) Value {
			return f(fr, argRV(a[0]), a[1:])
		}
	}
	M("IsValid", func(fr *frame, v RValue, a []Value) Value { return v.t != nil })
	M("Kind", func(fr *frame, v RValue, a []Value) Value {
		if v.t == nil {
			return int64(kInvalid)
		}
		return kindOf(v.t)
	})
	M("Type", func(fr *frame, v RValue, a []Value) Value {
		if v.t == nil {
			i.rpanic("call of reflect.Value.Type on zero Value")
		}
		return i.rtypeIface(v.t)
	})
	M("Elem", func(fr *frame, v RValue, a []Value) Value { return i.rvElem(v) })
	M("IsNil", func(fr *frame, v RValue, a []Value) Value {
		switch x := v.get().(type) {
		case *Value:
			return x == nil
		case *MapObj:
			return x == nil
		case Slice:
			return x.a == nil
		case Iface:
			return x.t == nil
		case nilFunc:
			return true
		case *ssa.Function, *Closure:
			return false
		case unsafePtr:
			return x.p == nil
		case *chanObj:
			return x == nil
		}
		i.rpanic("call of reflect.Value.IsNil on " + v.t.String() + " Value")
		return nil
	})
	M("IsZero", func(fr *frame, v RValue, a []Value) Value {
		return i.truthValue(i.equalVal(v.t, v.get(), zero(v.t)))
	})
	M("CanAddr", func(fr *frame, v RValue, a []Value) Value { return v.addr })
	M("CanSet", func(fr *frame, v RValue, a []Value) Value { return v.addr && !v.ro })
	M("CanInterface", func(fr *frame, v RValue, a []Value) Value {
		if v.t == nil {
			i.rpanic("call of reflect.Value.CanInterface on zero Value")
		}
		return !v.ro
	})
	M("Addr", func(fr *frame, v RValue, a []Value) Value {
		if !v.addr {
			i.rpanic("reflect.Value.Addr of unaddressable value")
		}
		return RValue{t: i.canon.canon(types.NewPointer(v.t)), p: newCell(v.p), ro: v.ro, sro: v.sro}
	})
	M("Interface", func(fr *frame, v RValue, a []Value) Value {
		if v.t == nil {
			i.rpanic("call of reflect.Value.Interface on zero Value")
		}
		if v.ro {
			i.rpanic("reflect.Value.Interface: cannot return value obtained from unexported field or method")
		}
		if _, ok := v.t.Underlying().(*types.Interface); ok {
			return v.get()
		}
		return Iface{t: v.t, v: copyVal(v.get())}
	})
	M("NumMethod", func(fr *frame, v RValue, a []Value) Value {
		if v.t == nil {
			i.rpanic("call of reflect.Value.NumMethod on zero Value")
		}
		return i.numMethod(v.t)
	})
	M("Len", func(fr *frame, v RValue, a []Value) Value {
		switch x := v.get().(type) {
		case Slice:
			return int64(len(x.a))
		case Array:
			return int64(len(x))
		case *MapObj:
			if x == nil {
				return int64(0)
			}
			return int64(x.Len())
		case string, *SymStr:
			return int64(strLen(x))
		case *Value: // pointer to array
			return int64(len((*x).(Array)))
		}
		i.rpanic("call of reflect.Value.Len on " + v.t.String())
		return nil
	})
	M("Cap", func(fr *frame, v RValue, a []Value) Value {
		switch x := v.get().(type) {
		case Slice:
			return int64(cap(x.a))
		case Array:
			return int64(len(x))
		}
		i.rpanic("call of reflect.Value.Cap on " + v.t.String())
		return nil
	})
	M("Index", func(fr *frame, v RValue, a []Value) Value {
		k := int(i.concInt(a[0], "Value.Index"))
		switch x := v.get().(type) {
		case Slice:
			if k < 0 || k >= len(x.a) {
				i.rpanic("reflect: slice index out of range")
			}
			return RValue{t: i.canon.canon(i.elemOfContainer(v)), p: &x.a[k], addr: true, ro: v.ro, sro: v.sro}
		case Array:
			if k < 0 || k >= len(x) {
				i.rpanic("reflect: array index out of range")
			}
			return RValue{t: i.canon.canon(i.elemOfContainer(v)), p: &x[k], addr: v.addr, ro: v.ro, sro: v.sro}
		case string, *SymStr:
			if k < 0 || k >= strLen(x) {
				i.rpanic("reflect: string index out of range")
			}
			return i.rv(types.Typ[types.Uint8], strAt(x, k))
		}
		i.rpanic("call of reflect.Value.Index on " + v.t.String())
		return nil
	})
	M("Field", func(fr *frame, v RValue, a []Value) Value {
		k := int(i.concInt(a[0], "Value.Field"))
		st := v.t.Underlying().(*types.Struct)
		s := v.get().(Struct)
		f := st.Field(k)
		// as reflect.Value.Field: only the sticky read-only bit is inherited; an unexported embedded
		// field is read-only itself but its exported fields are not
		sticky := v.sro || (!f.Exported() && !f.Embedded())
		return RValue{t: i.canon.canon(f.Type()), p: &s[k], addr: v.addr, ro: sticky || !f.Exported(), sro: sticky}
	})
	M("NumField", func(fr *frame, v RValue, a []Value) Value {
		return int64(v.t.Underlying().(*types.Struct).NumFields())
	})
	M("Set", func(fr *frame, v RValue, a []Value) Value {
		i.mustSettable(v, "reflect.Value.Set")
		x := argRV(a[0])
		if x.t == nil {
			i.rpanic("reflect: call of reflect.Value.Set on zero Value")
		}
		i.ex.onStore(v.p)
		storeInPlace(v.p, i.assignTo(x, v.t))
		return nil
	})
	M("SetZero", func(fr *frame, v RValue, a []Value) Value {
		i.mustSettable(v, "reflect.Value.SetZero")
		storeInPlace(v.p, zero(v.t))
		return nil
	})
	setter := func(name string) {
		M(name, func(fr *frame, v RValue, a []Value) Value {
			i.mustSettable(v, "reflect.Value."+name)
			x := a[0]
			if k, ok := intInfo(v.t); ok {
				switch xv := x.(type) {
				case int64:
					x = normInt(k, xv)
				case *Term:
					x = i.intVal(k, i.tt().Trunc(xv, k.w))
				}
			}
			if name == "SetFloat" && kindOf(v.t) == kFloat32 {
				x = float64(float32(x.(float64)))
			}
			i.ex.onStore(v.p)
			*v.p = x
			return nil
		})
	}
	for _, n := range []string{"SetBool", "SetInt", "SetUint", "SetFloat", "SetString", "SetBytes"} {
		setter(n)
	}
	M("SetLen", func(fr *frame, v RValue, a []Value) Value {
		i.mustSettable(v, "reflect.Value.SetLen")
		n := int(i.concInt(a[0], "SetLen"))
		s := v.get().(Slice)
		if n < 0 || n > cap(s.a) {
			i.rpanic("reflect: slice length out of range in SetLen")
		}
		*v.p = Slice{s.a[:n]}
		return nil
	})
	M("Grow", func(fr *frame, v RValue, a []Value) Value {
		i.mustSettable(v, "reflect.Value.Grow")
		n := int(i.concInt(a[0], "Grow"))
		s := v.get().(Slice)
		if len(s.a)+n > cap(s.a) {
			nc := 2*cap(s.a) + n
			na := make([]Value, len(s.a), nc)
			copy(na, s.a)
			full := na[:nc]
			et := i.elemOfContainer(v)
			for k := len(s.a); k < nc; k++ {
				full[k] = zero(et)
			}
			*v.p = Slice{na}
		}
		return nil
	})
	M("Slice", func(fr *frame, v RValue, a []Value) Value {
		lo, hi := int(i.concInt(a[0], "Slice")), int(i.concInt(a[1], "Slice"))
		switch x := v.get().(type) {
		case Slice:
			return i.rv(v.t, Slice{x.a[lo:hi]})
		case string, *SymStr:
			return i.rv(v.t, strSlice(x, lo, hi))
		case Array:
			return i.rv(types.NewSlice(i.elemOfContainer(v)), Slice{[]Value(x)[lo:hi]})
		}
		i.rpanic("Slice of " + v.t.String())
		return nil
	})
	M("Bool", func(fr *frame, v RValue, a []Value) Value { return v.get() })
	M("String", func(fr *frame, v RValue, a []Value) Value {
		if v.t == nil {
			return "<invalid Value>"
		}
		if kindOf(v.t) != kString {
			return "<" + i.typeString(v.t) + " Value>"
		}
		return v.get()
	})
	M("Int", func(fr *frame, v RValue, a []Value) Value {
		switch x := v.get().(type) {
		case int64:
			return x
		case *Term:
			return i.intVal(intKind{64, true}, i.tt().SExt(x, 64))
		}
		i.rpanic("Int of " + v.t.String())
		return nil
	})
	M("Uint", func(fr *frame, v RValue, a []Value) Value {
		switch x := v.get().(type) {
		case int64:
			return x
		case *Term:
			return i.intVal(intKind{64, false}, i.tt().ZExt(x, 64))
		}
		i.rpanic("Uint of " + v.t.String())
		return nil
	})
	M("Float", func(fr *frame, v RValue, a []Value) Value { return v.get() })
	M("Bytes", func(fr *frame, v RValue, a []Value) Value {
		switch x := v.get().(type) {
		case Slice:
			return x
		case Array:
			return Slice{[]Value(x)}
		}
		i.rpanic("Bytes of " + v.t.String())
		return nil
	})
	M("Pointer", func(fr *frame, v RValue, a []Value) Value { return int64(0) })
	M("UnsafePointer", func(fr *frame, v RValue, a []Value) Value {
		switch x := v.get().(type) {
		case *Value:
			return unsafePtr{x}
		case Slice:
			if len(x.a) > 0 || cap(x.a) > 0 {
				return unsafePtr{&x.a[:1][0]}
			}
			return unsafePtr{}
		case *MapObj:
			return unsafePtr{newCell(x)}
		}
		return unsafePtr{}
	})
	M("OverflowInt", func(fr *frame, v RValue, a []Value) Value { return i.overflow(v.t, a[0]) })
	M("OverflowUint", func(fr *frame, v RValue, a []Value) Value { return i.overflow(v.t, a[0]) })
	M("OverflowFloat", func(fr *frame, v RValue, a []Value) Value { return i.overflow(v.t, a[0]) })
	M("Convert", func(fr *frame, v RValue, a []Value) Value {
		dst := a[0].(Iface).v.(RType).t
		if _, ok := dst.Underlying().(*types.Interface); ok {
			return i.rv(dst, i.assignTo(v, dst))
		}
		return i.rv(dst, i.conv(dst, v.t, v.get()))
	})
	M("MapIndex", func(fr *frame, v RValue, a []Value) Value {
		m := v.get().(*MapObj)
		if m == nil {
			return RValue{}
		}
		k := argRV(a[0])
		mt := v.t.Underlying().(*types.Map)
		x, ok := m.lookup(i, i.assignTo(k, mt.Key()))
		if !ok {
			return RValue{}
		}
		return i.rv(mt.Elem(), x)
	})
	M("SetMapIndex", func(fr *frame, v RValue, a []Value) Value {
		m := v.get().(*MapObj)
		if m == nil {
			i.rpanic("assignment to entry in nil map")
		}
		mt := v.t.Underlying().(*types.Map)
		k := argRV(a[0])
		e := argRV(a[1])
		if e.t == nil {
			m.delete(i, i.assignTo(k, mt.Key()))
			return nil
		}
		m.insert(i, i.assignTo(k, mt.Key()), i.assignTo(e, mt.Elem()))
		return nil
	})
	M("MapKeys", func(fr *frame, v RValue, a []Value) Value {
		m := v.get().(*MapObj)
		mt := v.t.Underlying().(*types.Map)
		out := []Value{}
		if m != nil {
			for _, k := range m.snapshotKeys(i.nextMapOrder()) {
				out = append(out, i.rv(mt.Key(), k))
			}
		}
		return Slice{out}
	})
	M("MapRange", func(fr *frame, v RValue, a []Value) Value {
		m := v.get().(*MapObj)
		it := &mapIter{m: m}
		if m != nil {
			it.keys = m.snapshotKeys(i.nextMapOrder())
		}
		// *reflect.MapIter is modelled as a pointer to a cell holding the iterator object
		return newCell(&mapIterObj{it: it, m: v})
	})
	MI := func(name string, f func(fr *frame, it *mapIterObj, a []Value) Value) {
		i.intrinsics["(*reflect.MapIter)."+name] = func(fr *frame, a []Value) Value {
			return f(fr, (*a[0].(*Value)).(*mapIterObj), a[1:])
		}
	}
	MI("Next", func(fr *frame, it *mapIterObj, a []Value) Value {
		t := it.it.next(fr)
		it.has = t[0].(bool)
		it.k, it.v = t[1], t[2]
		return it.has
	})
	MI("Key", func(fr *frame, it *mapIterObj, a []Value) Value {
		return i.rv(it.m.t.Underlying().(*types.Map).Key(), it.k)
	})
	MI("Value", func(fr *frame, it *mapIterObj, a []Value) Value {
		return i.rv(it.m.t.Underlying().(*types.Map).Elem(), it.v)
	})
	M("SetIterKey", func(fr *frame, v RValue, a []Value) Value {
		it := (*a[0].(*Value)).(*mapIterObj)
		i.mustSettable(v, "SetIterKey")
		storeInPlace(v.p, copyVal(it.k))
		return nil
	})
	M("SetIterValue", func(fr *frame, v RValue, a []Value) Value {
		it := (*a[0].(*Value)).(*mapIterObj)
		i.mustSettable(v, "SetIterValue")
		storeInPlace(v.p, copyVal(it.v))
		return nil
	})
	M("Comparable", func(fr *frame, v RValue, a []Value) Value { return types.Comparable(v.t) })
	M("Equal", func(fr *frame, v RValue, a []Value) Value {
		u := argRV(a[0])
		return i.equalVal(v.t, v.get(), u.get())
	})

	// reflect.StructTag, StructField.IsExported, Kind.String run from source.
	R("(reflect.Kind).String", func(fr *frame, a []Value) Value {
		names := []string{"invalid", "bool", "int", "int8", "int16", "int32", "int64", "uint", "uint8", "uint16", "uint32", "uint64", "uintptr",
			"float32", "float64", "complex64", "complex128", "array", "chan", "func", "interface", "map", "ptr", "slice", "string", "struct", "unsafe.Pointer"}
		k := a[0].(int64)
		if k >= 0 && int(k) < len(names) {
			return names[k]
		}
		return "kind" + fmt.Sprint(k)
	})
}

func (i *Interp) truthValue(v Value) Value { return v }

func (i *Interp) rvElem(v RValue) Value {
	if v.t == nil {
		i.rpanic("call of reflect.Value.Elem on zero Value")
	}
	switch u := v.t.Underlying().(type) {
	case *types.Pointer:
		p := v.get().(*Value)
		if p == nil {
			return RValue{}
		}
		return RValue{t: i.canon.canon(u.Elem()), p: p, addr: true, ro: v.ro, sro: v.sro}
	case *types.Interface:
		x := v.get().(Iface)
		if x.t == nil {
			return RValue{}
		}
		r := i.rv(x.t, x.v)
		r.ro, r.sro = v.ro, v.sro
		return r
	}
	i.rpanic("call of reflect.Value.Elem on " + v.t.String() + " Value")
	return nil
}

var _ = strings.HasPrefix
