package main

import (
	"bytes"
	"fmt"
	"os"
	"path/filepath"
	"strings"
)

const v5Path = "github.com/evanphx/json-patch/v5"
const legacyPath = "github.com/evanphx/json-patch"

func harnessDir() string { return filepath.Join(verifDir, "harness") }

// fileFilter selects harness files by suffix: *_v5.go only for v5/cmd, *_legacy.go only for legacy.
func fileFilter(kind string) func(name string, src []byte) []byte {
	return func(name string, src []byte) []byte {
		if strings.HasSuffix(name, "_test.go") {
			return nil
		}
		isV5 := strings.HasSuffix(name, "_v5.go")
		isLeg := strings.HasSuffix(name, "_legacy.go")
		if kind == "legacy" || kind == "cmdlegacy" {
			if isV5 {
				return nil
			}
			src = bytes.ReplaceAll(src, []byte(`"`+v5Path+`/zzverif/vx"`), []byte(`"`+legacyPath+`/zzverif/vx"`))
			src = bytes.ReplaceAll(src, []byte(`"`+v5Path+`"`), []byte(`"`+legacyPath+`"`))
			return src
		}
		if isLeg {
			return nil
		}
		return src
	}
}

// buildOverlay returns the overlay (virtual path -> contents) for a target kind rooted at modDir.
func buildOverlay(kind, modDir string) (map[string][]byte, error) {
	ov := map[string][]byte{}
	hd := harnessDir()
	ff := fileFilter(kind)
	if err := overlayDir(ov, filepath.Join(hd, "vx"), filepath.Join(modDir, "zzverif", "vx"), ff); err != nil {
		return nil, err
	}
	if err := overlayDir(ov, filepath.Join(hd, "h"), filepath.Join(modDir, "zzverif"), ff); err != nil {
		return nil, err
	}
	switch kind {
	case "v5", "cmd":
		if err := overlayDir(ov, filepath.Join(hd, "injson"), filepath.Join(modDir, "internal", "json"), ff); err != nil && !os.IsNotExist(err) {
			return nil, err
		}
		if err := overlayDir(ov, filepath.Join(hd, "injp"), modDir, ff); err != nil && !os.IsNotExist(err) {
			return nil, err
		}
		if kind == "cmd" {
			if err := overlayDir(ov, filepath.Join(hd, "incmd"), filepath.Join(modDir, "cmd", "json-patch"), ff); err != nil && !os.IsNotExist(err) {
				return nil, err
			}
		}
	case "legacy", "cmdlegacy":
		if err := overlayDir(ov, filepath.Join(hd, "injp_legacy"), modDir, ff); err != nil && !os.IsNotExist(err) {
			return nil, err
		}
		if kind == "cmdlegacy" {
			// the root command: same in-package harness, imports rewritten to the root package by the file filter
			if err := overlayDir(ov, filepath.Join(hd, "incmd"), filepath.Join(modDir, "cmd", "json-patch"), ff); err != nil {
				return nil, err
			}
		}
	}
	return ov, nil
}

// stageLegacy copies the root package (non-test sources) into a scratch module.
func stageLegacy(repo string) (string, error) {
	tmp, err := os.MkdirTemp("", "gosx-legacy-")
	if err != nil {
		return "", err
	}
	ents, err := os.ReadDir(repo)
	if err != nil {
		return tmp, err
	}
	for _, e := range ents {
		n := e.Name()
		if e.IsDir() || !strings.HasSuffix(n, ".go") || strings.HasSuffix(n, "_test.go") {
			continue
		}
		b, err := os.ReadFile(filepath.Join(repo, n))
		if err != nil {
			return tmp, err
		}
		if err := os.WriteFile(filepath.Join(tmp, n), b, 0o644); err != nil {
			return tmp, err
		}
	}
	// the command
	cmdSrc := filepath.Join(repo, "cmd", "json-patch")
	if ents, err := os.ReadDir(cmdSrc); err == nil {
		os.MkdirAll(filepath.Join(tmp, "cmd", "json-patch"), 0o755)
		for _, e := range ents {
			if strings.HasSuffix(e.Name(), ".go") && !strings.HasSuffix(e.Name(), "_test.go") {
				b, _ := os.ReadFile(filepath.Join(cmdSrc, e.Name()))
				os.WriteFile(filepath.Join(tmp, "cmd", "json-patch", e.Name()), b, 0o644)
			}
		}
	}
	gomod := "module " + legacyPath + "\n\ngo 1.18\n\nrequire (\n\tgithub.com/jessevdk/go-flags v1.6.1\n\tgithub.com/pkg/errors v0.9.1\n)\n\nrequire golang.org/x/sys v0.21.0 // indirect\n"
	if err := os.WriteFile(filepath.Join(tmp, "go.mod"), []byte(gomod), 0o644); err != nil {
		return tmp, err
	}
	if b, err := os.ReadFile(filepath.Join(repo, "v5", "go.sum")); err == nil {
		os.WriteFile(filepath.Join(tmp, "go.sum"), b, 0o644)
	}
	return tmp, nil
}

func loadTarget(repo, kind string) (*Target, error) {
	t := &Target{kind: kind}
	var modDir string
	var patterns []string
	harn := "/zzverif"
	switch kind {
	case "v5":
		modDir = filepath.Join(repo, "v5")
		patterns = []string{"./zzverif"}
	case "cmd":
		modDir = filepath.Join(repo, "v5")
		patterns = []string{"./cmd/json-patch", "./zzverif"}
		harn = "/cmd/json-patch"
	case "legacy", "cmdlegacy":
		tmp, err := stageLegacy(repo)
		t.tmp = tmp
		if err != nil {
			return t, err
		}
		modDir = tmp
		patterns = []string{"./zzverif"}
		if kind == "cmdlegacy" {
			patterns = []string{"./cmd/json-patch", "./zzverif"}
			harn = "/cmd/json-patch"
		}
	default:
		return nil, fmt.Errorf("unknown target %q", kind)
	}
	ov, err := buildOverlay(kind, modDir)
	if err != nil {
		return t, err
	}
	ld, err := loadProgram(LoadSpec{ModDir: modDir, Overlay: ov, Patterns: patterns, Harness: harn})
	if err != nil {
		return t, err
	}
	t.Loaded = ld
	return t, nil
}
