package main

// Interpreter maps: insertion-ordered entry lists. Keys with symbolic bytes
// are compared against existing keys under solver-decided forks.

import (
	"fmt"
	"strconv"
	"strings"
)

type MapObj struct {
	keys []Value
	vals []Value
	idx  map[string]int // canonical encoding of concrete keys -> position
	nsym int
}

func newMap() *MapObj {
	return &MapObj{idx: map[string]int{}}
}

func (m *MapObj) Len() int { return len(m.keys) }

// keyEnc returns a canonical string for a concrete key, ok=false if the key has symbolic parts.
func keyEnc(v Value) (string, bool) {
	switch v := v.(type) {
	case string:
		return "s" + v, true
	case int64:
		return "i" + strconv.FormatInt(v, 10), true
	case bool:
		if v {
			return "bt", true
		}
		return "bf", true
	case float64:
		return "f" + strconv.FormatFloat(v, 'g', -1, 64), true
	case *Value:
		return fmt.Sprintf("p%p", v), true
	case unsafePtr:
		return fmt.Sprintf("u%p", v.p), true
	case Iface:
		if v.t == nil {
			return "I<nil>", true
		}
		e, ok := keyEnc(v.v)
		return "I" + v.t.String() + "|" + e, ok
	case RType:
		return fmt.Sprintf("T%p", v.t), true
	case Struct:
		var sb strings.Builder
		sb.WriteString("{")
		for _, f := range v {
			e, ok := keyEnc(f)
			if !ok {
				return "", false
			}
			sb.WriteString(strconv.Itoa(len(e)))
			sb.WriteString(":")
			sb.WriteString(e)
		}
		return sb.String(), true
	case Array:
		var sb strings.Builder
		sb.WriteString("[")
		for _, f := range v {
			e, ok := keyEnc(f)
			if !ok {
				return "", false
			}
			sb.WriteString(strconv.Itoa(len(e)))
			sb.WriteString(":")
			sb.WriteString(e)
		}
		return sb.String(), true
	case *SymStr, *Term:
		return "", false
	case *MapObj:
		return fmt.Sprintf("m%p", v), true
	case nil:
		return "nil", true
	}
	panic(fmt.Sprintf("keyEnc: unhashable %T", v))
}

// find returns the position of key k or -1, forking on symbolic equalities.
func (m *MapObj) find(i *Interp, k Value) int {
	enc, conc := keyEnc(k)
	if conc && m.nsym == 0 {
		if p, ok := m.idx[enc]; ok {
			return p
		}
		return -1
	}
	if conc {
		if p, ok := m.idx[enc]; ok {
			return p
		}
	}
	for p, ek := range m.keys {
		if conc {
			if _, econc := keyEnc(ek); econc {
				continue // concrete vs concrete: already answered by idx
			}
		}
		eq := i.equalVal(nil, ek, k)
		switch eq := eq.(type) {
		case bool:
			if eq {
				return p
			}
		case *Term:
			if i.ex.decide(eq) {
				return p
			}
		}
	}
	return -1
}

func (m *MapObj) lookup(i *Interp, k Value) (Value, bool) {
	p := m.find(i, k)
	if p < 0 {
		return nil, false
	}
	return m.vals[p], true
}

// lookupExact finds a key by identity of representation (used by iterators).
func (m *MapObj) lookupExact(k Value) (Value, bool) {
	if enc, conc := keyEnc(k); conc {
		if p, ok := m.idx[enc]; ok {
			return m.vals[p], true
		}
		return nil, false
	}
	for p, ek := range m.keys {
		if sameRef(ek, k) {
			return m.vals[p], true
		}
	}
	return nil, false
}

func sameRef(a, b Value) bool {
	switch a := a.(type) {
	case *SymStr:
		b, ok := b.(*SymStr)
		return ok && a == b
	case *Term:
		b, ok := b.(*Term)
		return ok && a == b
	}
	return false
}

func (m *MapObj) insert(i *Interp, k, v Value) {
	p := m.find(i, k)
	if p >= 0 {
		m.vals[p] = v
		return
	}
	m.keys = append(m.keys, k)
	m.vals = append(m.vals, v)
	if enc, conc := keyEnc(k); conc {
		m.idx[enc] = len(m.keys) - 1
	} else {
		m.nsym++
	}
}

func (m *MapObj) delete(i *Interp, k Value) {
	p := m.find(i, k)
	if p < 0 {
		return
	}
	if _, conc := keyEnc(m.keys[p]); !conc {
		m.nsym--
	}
	m.keys = append(m.keys[:p:p], m.keys[p+1:]...)
	m.vals = append(m.vals[:p:p], m.vals[p+1:]...)
	m.reindex()
}

func (m *MapObj) reindex() {
	m.idx = make(map[string]int, len(m.keys))
	for p, k := range m.keys {
		if enc, conc := keyEnc(k); conc {
			m.idx[enc] = p
		}
	}
}

func (m *MapObj) clear() {
	m.keys, m.vals, m.nsym = nil, nil, 0
	m.idx = map[string]int{}
}

func (m *MapObj) snapshotKeys(reverse bool) []Value {
	ks := append([]Value(nil), m.keys...)
	if reverse {
		for a, b := 0, len(ks)-1; a < b; a, b = a+1, b-1 {
			ks[a], ks[b] = ks[b], ks[a]
		}
	}
	return ks
}
