package main

// Hash-consed, simplified SMT terms over Bool and fixed-width bit-vectors.
// One TermTable per worker; it is reset at the start of every path.

import (
	"fmt"
	"strconv"
	"strings"
)

type Op uint8

const (
	OpConst Op = iota
	OpVar
	OpNot
	OpAnd
	OpOr
	OpIte
	OpEq
	OpAdd
	OpSub
	OpMul
	OpUDiv
	OpSDiv
	OpURem
	OpSRem
	OpBAnd
	OpBOr
	OpBXor
	OpShl
	OpLShr
	OpAShr
	OpULt
	OpSLt
	OpULe
	OpSLe
	OpZExt
	OpSExt
	OpExtract // low bits only: extract[w-1:0]
	OpBNot
	OpNeg
	OpSelect // (select arr idx) over named array var; args[0]=array term
	OpStore  // (store arr idx val)
	OpArrVar // array variable (Array BV64 BV64)
	OpLut    // args[0] = index; Lut = constant table; value = Lut[min(index, len-1)] (printed to SMT as an ite chain)
)

var opNames = [...]string{"const", "var", "not", "and", "or", "ite", "=", "bvadd", "bvsub", "bvmul", "bvudiv", "bvsdiv", "bvurem", "bvsrem",
	"bvand", "bvor", "bvxor", "bvshl", "bvlshr", "bvashr", "bvult", "bvslt", "bvule", "bvsle", "zext", "sext", "extract", "bvnot", "bvneg", "select", "store", "arrvar", "lut"}

// Term sort: W==0 means Bool; W in 1..64 a bit-vector; W==255 an array BV64->BV64.
type Term struct {
	Op   Op
	W    uint8
	Args []*Term
	Val  uint64 // const value (masked); for Bool 0/1
	Name string // var
	Lut  []uint64 // OpLut: the table
	id   int
	nv   uint8 // number of distinct scalar vars: 0,1, or 2 (= many / arrays)
	v0   *Term // the single var if nv==1
}

const WArr = 255

type TermTable struct {
	tab    map[string]*Term
	nextID int
	True   *Term
	False  *Term
	vars   map[string]*Term
}

func NewTermTable() *TermTable {
	tt := &TermTable{}
	tt.Reset()
	return tt
}

func (tt *TermTable) Reset() {
	tt.tab = make(map[string]*Term, 1024)
	tt.vars = make(map[string]*Term)
	tt.nextID = 0
	tt.True = tt.Const(0, 1)
	tt.False = tt.Const(0, 0)
}

func mask(w uint8, v uint64) uint64 {
	if w == 0 {
		return v & 1
	}
	if w >= 64 {
		return v
	}
	return v & ((uint64(1) << w) - 1)
}

func sext64(w uint8, v uint64) int64 {
	if w == 0 || w >= 64 {
		return int64(v)
	}
	sh := 64 - uint(w)
	return int64(v<<sh) >> sh
}

func (tt *TermTable) mk(op Op, w uint8, val uint64, name string, args ...*Term) *Term {
	var sb strings.Builder
	sb.WriteByte(byte(op))
	sb.WriteByte(w)
	if op == OpConst {
		sb.WriteString(strconv.FormatUint(val, 16))
	} else if op == OpVar || op == OpArrVar || op == OpLut {
		sb.WriteString(name)
	}
	for _, a := range args {
		sb.WriteByte(':')
		sb.WriteString(strconv.Itoa(a.id))
	}
	k := sb.String()
	if t, ok := tt.tab[k]; ok {
		return t
	}
	t := &Term{Op: op, W: w, Val: val, Name: name, id: tt.nextID}
	if len(args) > 0 {
		t.Args = append([]*Term(nil), args...)
	}
	tt.nextID++
	switch op {
	case OpVar:
		t.nv, t.v0 = 1, t
	case OpArrVar:
		t.nv = 2
	default:
		for _, a := range args {
			switch {
			case a.nv == 0:
			case a.nv >= 2:
				t.nv = 2
			case t.nv == 0:
				t.nv, t.v0 = 1, a.v0
			case t.nv == 1 && t.v0 != a.v0:
				t.nv = 2
			}
		}
		if t.nv != 1 {
			t.v0 = nil
		}
	}
	tt.tab[k] = t
	return t
}

func (tt *TermTable) Const(w uint8, v uint64) *Term {
	return tt.mk(OpConst, w, mask(w, v), "")
}
func (tt *TermTable) Bool(b bool) *Term {
	if b {
		return tt.True
	}
	return tt.False
}
func (tt *TermTable) Var(name string, w uint8) *Term {
	t := tt.mk(OpVar, w, 0, name)
	tt.vars[name] = t
	return t
}
func (tt *TermTable) ArrVar(name string) *Term {
	t := tt.mk(OpArrVar, WArr, 0, name)
	tt.vars[name] = t
	return t
}

func (t *Term) IsConst() bool { return t.Op == OpConst }
func (t *Term) IsTrue() bool  { return t.Op == OpConst && t.W == 0 && t.Val == 1 }
func (t *Term) IsFalse() bool { return t.Op == OpConst && t.W == 0 && t.Val == 0 }

func (tt *TermTable) Not(a *Term) *Term {
	if a.W != 0 {
		panic("Not on non-bool")
	}
	if a.IsConst() {
		return tt.Bool(a.Val == 0)
	}
	if a.Op == OpNot {
		return a.Args[0]
	}
	return tt.mk(OpNot, 0, 0, "", a)
}

func (tt *TermTable) And(a, b *Term) *Term {
	if a.IsConst() {
		if a.Val == 0 {
			return tt.False
		}
		return b
	}
	if b.IsConst() {
		if b.Val == 0 {
			return tt.False
		}
		return a
	}
	if a == b {
		return a
	}
	return tt.mk(OpAnd, 0, 0, "", a, b)
}

func (tt *TermTable) Or(a, b *Term) *Term {
	if a.IsConst() {
		if a.Val == 1 {
			return tt.True
		}
		return b
	}
	if b.IsConst() {
		if b.Val == 1 {
			return tt.True
		}
		return a
	}
	if a == b {
		return a
	}
	return tt.mk(OpOr, 0, 0, "", a, b)
}

// Lut reads a constant table at a symbolic index (the index is known to be in range; an index >= len-1 yields the last entry,
// exactly as the ite chain it replaces).
func (tt *TermTable) Lut(idx *Term, w uint8, table []uint64) *Term {
	if idx.IsConst() {
		k := idx.Val
		if k >= uint64(len(table)) {
			k = uint64(len(table) - 1)
		}
		return tt.Const(w, table[k])
	}
	var sb strings.Builder
	for _, v := range table {
		sb.WriteString(strconv.FormatUint(v, 36))
		sb.WriteByte(',')
	}
	t := tt.mk(OpLut, w, 0, sb.String(), idx)
	if t.Lut == nil {
		t.Lut = append([]uint64(nil), table...)
	}
	return t
}

func (tt *TermTable) Ite(c, a, b *Term) *Term {
	if c.IsConst() {
		if c.Val == 1 {
			return a
		}
		return b
	}
	if a == b {
		return a
	}
	if a.W != b.W {
		panic(fmt.Sprintf("Ite width mismatch %d %d", a.W, b.W))
	}
	if a.W == 0 {
		if a.IsTrue() && b.IsFalse() {
			return c
		}
		if a.IsFalse() && b.IsTrue() {
			return tt.Not(c)
		}
		if b.IsFalse() {
			return tt.And(c, a)
		}
		if a.IsTrue() {
			return tt.Or(c, b)
		}
		if a.IsFalse() {
			return tt.And(tt.Not(c), b)
		}
		if b.IsTrue() {
			return tt.Or(tt.Not(c), a)
		}
	}
	return tt.mk(OpIte, a.W, 0, "", c, a, b)
}

func (tt *TermTable) Eq(a, b *Term) *Term {
	if a.W != b.W {
		panic(fmt.Sprintf("Eq width mismatch %d %d (%s %s)", a.W, b.W, a, b))
	}
	if a == b {
		return tt.True
	}
	if a.IsConst() && b.IsConst() {
		return tt.Bool(a.Val == b.Val)
	}
	if a.IsConst() {
		a, b = b, a
	}
	if b.IsConst() {
		// eq(zext(x), c)
		if a.Op == OpZExt {
			x := a.Args[0]
			if mask(x.W, b.Val) != b.Val {
				return tt.False
			}
			return tt.Eq(x, tt.Const(x.W, b.Val))
		}
		if a.W == 0 {
			if b.Val == 1 {
				return a
			}
			return tt.Not(a)
		}
	}
	if a.id > b.id {
		a, b = b, a
	}
	return tt.mk(OpEq, 0, 0, "", a, b)
}

func evalBin(op Op, w uint8, x, y uint64) uint64 {
	switch op {
	case OpAdd:
		return mask(w, x+y)
	case OpSub:
		return mask(w, x-y)
	case OpMul:
		return mask(w, x*y)
	case OpUDiv:
		if y == 0 {
			return mask(w, ^uint64(0))
		}
		return mask(w, x/y)
	case OpURem:
		if y == 0 {
			return x
		}
		return mask(w, x%y)
	case OpSDiv:
		sx, sy := sext64(w, x), sext64(w, y)
		if sy == 0 {
			if sx >= 0 {
				return mask(w, ^uint64(0))
			}
			return 1
		}
		if sy == -1 {
			return mask(w, uint64(-sx))
		}
		return mask(w, uint64(sx/sy))
	case OpSRem:
		sx, sy := sext64(w, x), sext64(w, y)
		if sy == 0 {
			return x
		}
		if sy == -1 {
			return 0
		}
		return mask(w, uint64(sx%sy))
	case OpBAnd:
		return x & y
	case OpBOr:
		return x | y
	case OpBXor:
		return x ^ y
	case OpShl:
		if y >= uint64(w) {
			return 0
		}
		return mask(w, x<<y)
	case OpLShr:
		if y >= uint64(w) {
			return 0
		}
		return x >> y
	case OpAShr:
		sx := sext64(w, x)
		if y >= uint64(w) {
			y = uint64(w) - 1
		}
		return mask(w, uint64(sx>>y))
	case OpULt:
		return b2u(x < y)
	case OpULe:
		return b2u(x <= y)
	case OpSLt:
		return b2u(sext64(w, x) < sext64(w, y))
	case OpSLe:
		return b2u(sext64(w, x) <= sext64(w, y))
	}
	panic("evalBin: bad op " + opNames[op])
}

func b2u(b bool) uint64 {
	if b {
		return 1
	}
	return 0
}

// Bin builds a binary bit-vector operation. For comparison ops the result is Bool.
func (tt *TermTable) Bin(op Op, a, b *Term) *Term {
	if a.W != b.W {
		panic(fmt.Sprintf("Bin %s width mismatch %d %d", opNames[op], a.W, b.W))
	}
	w := a.W
	rw := w
	switch op {
	case OpULt, OpULe, OpSLt, OpSLe:
		rw = 0
	}
	if a.IsConst() && b.IsConst() {
		return tt.Const(rw, evalBin(op, w, a.Val, b.Val))
	}
	switch op {
	case OpAdd:
		if a.IsConst() && a.Val == 0 {
			return b
		}
		if b.IsConst() && b.Val == 0 {
			return a
		}
		if a.IsConst() {
			a, b = b, a
		}
	case OpSub:
		if b.IsConst() && b.Val == 0 {
			return a
		}
		if a == b {
			return tt.Const(w, 0)
		}
	case OpMul:
		if a.IsConst() {
			a, b = b, a
		}
		if b.IsConst() {
			if b.Val == 0 {
				return b
			}
			if b.Val == 1 {
				return a
			}
		}
	case OpBAnd:
		if a.IsConst() {
			a, b = b, a
		}
		if b.IsConst() {
			if b.Val == 0 {
				return b
			}
			if b.Val == mask(w, ^uint64(0)) {
				return a
			}
		}
		if a == b {
			return a
		}
	case OpBOr:
		if a.IsConst() {
			a, b = b, a
		}
		if b.IsConst() && b.Val == 0 {
			return a
		}
		if a == b {
			return a
		}
	case OpBXor:
		if a.IsConst() {
			a, b = b, a
		}
		if b.IsConst() && b.Val == 0 {
			return a
		}
		if a == b {
			return tt.Const(w, 0)
		}
	case OpShl, OpLShr, OpAShr:
		if b.IsConst() && b.Val == 0 {
			return a
		}
	case OpULt:
		if a == b {
			return tt.False
		}
		if b.IsConst() && b.Val == 0 {
			return tt.False
		}
		// zext(x) <u c  with c > max(x)
		if a.Op == OpZExt && b.IsConst() {
			x := a.Args[0]
			if b.Val > mask(x.W, ^uint64(0)) {
				return tt.True
			}
			return tt.Bin(OpULt, x, tt.Const(x.W, b.Val))
		}
	case OpULe:
		if a == b {
			return tt.True
		}
		if a.Op == OpZExt && b.IsConst() {
			x := a.Args[0]
			if b.Val >= mask(x.W, ^uint64(0)) {
				return tt.True
			}
			return tt.Bin(OpULe, x, tt.Const(x.W, b.Val))
		}
	case OpSLt:
		if a == b {
			return tt.False
		}
		if a.Op == OpZExt && b.IsConst() && a.Args[0].W < w {
			x := a.Args[0]
			sb := sext64(w, b.Val)
			if sb <= 0 {
				return tt.False
			}
			if uint64(sb) > mask(x.W, ^uint64(0)) {
				return tt.True
			}
			return tt.Bin(OpULt, x, tt.Const(x.W, uint64(sb)))
		}
		if b.Op == OpZExt && a.IsConst() && b.Args[0].W < w {
			x := b.Args[0]
			sa := sext64(w, a.Val)
			if sa < 0 {
				return tt.True
			}
			if uint64(sa) >= mask(x.W, ^uint64(0)) {
				return tt.False
			}
			return tt.Bin(OpULt, tt.Const(x.W, uint64(sa)), x)
		}
	case OpSLe:
		if a == b {
			return tt.True
		}
		if a.Op == OpZExt && b.IsConst() && a.Args[0].W < w {
			x := a.Args[0]
			sb := sext64(w, b.Val)
			if sb < 0 {
				return tt.False
			}
			if uint64(sb) >= mask(x.W, ^uint64(0)) {
				return tt.True
			}
			return tt.Bin(OpULe, x, tt.Const(x.W, uint64(sb)))
		}
		if b.Op == OpZExt && a.IsConst() && b.Args[0].W < w {
			x := b.Args[0]
			sa := sext64(w, a.Val)
			if sa <= 0 {
				return tt.True
			}
			if uint64(sa) > mask(x.W, ^uint64(0)) {
				return tt.False
			}
			return tt.Bin(OpULe, tt.Const(x.W, uint64(sa)), x)
		}
	}
	return tt.mk(op, rw, 0, "", a, b)
}

func (tt *TermTable) BNot(a *Term) *Term {
	if a.IsConst() {
		return tt.Const(a.W, ^a.Val)
	}
	if a.Op == OpBNot {
		return a.Args[0]
	}
	return tt.mk(OpBNot, a.W, 0, "", a)
}

func (tt *TermTable) Neg(a *Term) *Term {
	if a.IsConst() {
		return tt.Const(a.W, -a.Val)
	}
	return tt.mk(OpNeg, a.W, 0, "", a)
}

func (tt *TermTable) ZExt(a *Term, w uint8) *Term {
	if a.W == w {
		return a
	}
	if a.W > w {
		panic("ZExt narrowing")
	}
	if a.IsConst() {
		return tt.Const(w, a.Val)
	}
	if a.Op == OpZExt {
		return tt.mk(OpZExt, w, 0, "", a.Args[0])
	}
	return tt.mk(OpZExt, w, 0, "", a)
}

func (tt *TermTable) SExt(a *Term, w uint8) *Term {
	if a.W == w {
		return a
	}
	if a.W > w {
		panic("SExt narrowing")
	}
	if a.IsConst() {
		return tt.Const(w, uint64(sext64(a.W, a.Val)))
	}
	if a.Op == OpZExt { // zext then sext = zext
		return tt.mk(OpZExt, w, 0, "", a.Args[0])
	}
	return tt.mk(OpSExt, w, 0, "", a)
}

// Trunc keeps the low w bits.
func (tt *TermTable) Trunc(a *Term, w uint8) *Term {
	if a.W == w {
		return a
	}
	if a.W < w {
		panic("Trunc widening")
	}
	if a.IsConst() {
		return tt.Const(w, a.Val)
	}
	if a.Op == OpZExt || a.Op == OpSExt {
		x := a.Args[0]
		if x.W == w {
			return x
		}
		if x.W > w {
			return tt.Trunc(x, w)
		}
		if a.Op == OpZExt {
			return tt.ZExt(x, w)
		}
		return tt.SExt(x, w)
	}
	return tt.mk(OpExtract, w, 0, "", a)
}

func (tt *TermTable) Select(arr, idx *Term) *Term {
	// read-over-write with syntactically equal / distinct constant indices
	for arr.Op == OpStore {
		if arr.Args[1] == idx {
			return arr.Args[2]
		}
		if arr.Args[1].IsConst() && idx.IsConst() {
			arr = arr.Args[0]
			continue
		}
		break
	}
	return tt.mk(OpSelect, 64, 0, "", arr, idx)
}

func (tt *TermTable) Store(arr, idx, val *Term) *Term {
	return tt.mk(OpStore, WArr, 0, "", arr, idx, val)
}

// ---------------------------------------------------------------- evaluation

type Model map[string]uint64

// Eval evaluates t under model m (missing variables read as 0). Arrays are
// evaluated through ArrModel entries "name[idx]" (missing = 0).
func Eval(t *Term, m Model) uint64 {
	// fast path: plain recursion without memo while the term is small as a tree
	budget := 4000
	if v, ok := evalFast(t, m, &budget); ok {
		return v
	}
	memo := make(map[*Term]uint64, 64)
	return eval1(t, m, memo)
}

func evalFast(t *Term, m Model, budget *int) (uint64, bool) {
	*budget--
	if *budget < 0 {
		return 0, false
	}
	switch t.Op {
	case OpConst:
		return t.Val, true
	case OpVar:
		return mask(t.W, m[t.Name]), true
	case OpSelect, OpStore, OpArrVar:
		return 0, false
	}
	a0, ok := evalFast(t.Args[0], m, budget)
	if !ok {
		return 0, false
	}
	switch t.Op {
	case OpNot:
		return 1 ^ a0, true
	case OpAnd:
		if a0 == 0 {
			return 0, true
		}
		return evalFast(t.Args[1], m, budget)
	case OpOr:
		if a0 == 1 {
			return 1, true
		}
		return evalFast(t.Args[1], m, budget)
	case OpLut:
		if a0 >= uint64(len(t.Lut)) {
			a0 = uint64(len(t.Lut) - 1)
		}
		return t.Lut[a0], true
	case OpIte:
		if a0 == 1 {
			return evalFast(t.Args[1], m, budget)
		}
		return evalFast(t.Args[2], m, budget)
	case OpZExt:
		return a0, true
	case OpSExt:
		return mask(t.W, uint64(sext64(t.Args[0].W, a0))), true
	case OpExtract:
		return mask(t.W, a0), true
	case OpBNot:
		return mask(t.W, ^a0), true
	case OpNeg:
		return mask(t.W, -a0), true
	}
	a1, ok := evalFast(t.Args[1], m, budget)
	if !ok {
		return 0, false
	}
	if t.Op == OpEq {
		return b2u(a0 == a1), true
	}
	return evalBin(t.Op, t.Args[0].W, a0, a1), true
}

func evalArr(arr *Term, idx uint64, m Model, memo map[*Term]uint64) uint64 {
	for {
		switch arr.Op {
		case OpArrVar:
			return m[arr.Name+"["+strconv.FormatUint(idx, 10)+"]"]
		case OpStore:
			if eval1(arr.Args[1], m, memo) == idx {
				return eval1(arr.Args[2], m, memo)
			}
			arr = arr.Args[0]
		default:
			panic("evalArr")
		}
	}
}

func eval1(t *Term, m Model, memo map[*Term]uint64) uint64 {
	switch t.Op {
	case OpConst:
		return t.Val
	case OpVar:
		return mask(t.W, m[t.Name])
	}
	if v, ok := memo[t]; ok {
		return v
	}
	var r uint64
	switch t.Op {
	case OpNot:
		r = 1 ^ eval1(t.Args[0], m, memo)
	case OpAnd:
		r = eval1(t.Args[0], m, memo)
		if r == 1 {
			r = eval1(t.Args[1], m, memo)
		}
	case OpOr:
		r = eval1(t.Args[0], m, memo)
		if r == 0 {
			r = eval1(t.Args[1], m, memo)
		}
	case OpLut:
		k := eval1(t.Args[0], m, memo)
		if k >= uint64(len(t.Lut)) {
			k = uint64(len(t.Lut) - 1)
		}
		r = t.Lut[k]
	case OpIte:
		if eval1(t.Args[0], m, memo) == 1 {
			r = eval1(t.Args[1], m, memo)
		} else {
			r = eval1(t.Args[2], m, memo)
		}
	case OpEq:
		r = b2u(eval1(t.Args[0], m, memo) == eval1(t.Args[1], m, memo))
	case OpZExt:
		r = eval1(t.Args[0], m, memo)
	case OpSExt:
		r = mask(t.W, uint64(sext64(t.Args[0].W, eval1(t.Args[0], m, memo))))
	case OpExtract:
		r = mask(t.W, eval1(t.Args[0], m, memo))
	case OpBNot:
		r = mask(t.W, ^eval1(t.Args[0], m, memo))
	case OpNeg:
		r = mask(t.W, -eval1(t.Args[0], m, memo))
	case OpSelect:
		r = evalArr(t.Args[0], eval1(t.Args[1], m, memo), m, memo)
	default:
		r = evalBin(t.Op, t.Args[0].W, eval1(t.Args[0], m, memo), eval1(t.Args[1], m, memo))
	}
	memo[t] = r
	return r
}

// evalByte evaluates a term whose only variable is v0 (8 bits) at value x.
func evalSingle(t *Term, name string, x uint64) uint64 {
	return Eval(t, Model{name: x})
}

// CollectVars adds the names of all variables under t to set.
func CollectVars(t *Term, set map[string]*Term, seen map[*Term]bool) {
	if seen[t] {
		return
	}
	seen[t] = true
	if t.Op == OpVar || t.Op == OpArrVar {
		set[t.Name] = t
		return
	}
	for _, a := range t.Args {
		CollectVars(a, set, seen)
	}
}

// ---------------------------------------------------------------- printing

func sortName(w uint8) string {
	switch w {
	case 0:
		return "Bool"
	case WArr:
		return "(Array (_ BitVec 64) (_ BitVec 64))"
	}
	return "(_ BitVec " + strconv.Itoa(int(w)) + ")"
}

func constSMT(w uint8, v uint64) string {
	if w == 0 {
		if v == 1 {
			return "true"
		}
		return "false"
	}
	if w%4 == 0 {
		return fmt.Sprintf("#x%0*x", int(w)/4, v)
	}
	return fmt.Sprintf("#b%0*b", int(w), v)
}

func smtName(n string) string {
	return "|" + n + "|"
}

// SMT renders t as an SMT-LIB2 expression, sharing sub-terms via let.
func SMT(t *Term) string {
	// count references
	refs := map[*Term]int{}
	var order []*Term
	var walk func(x *Term)
	walk = func(x *Term) {
		refs[x]++
		if refs[x] > 1 {
			return
		}
		for _, a := range x.Args {
			walk(a)
		}
		order = append(order, x) // post-order
	}
	walk(t)
	names := map[*Term]string{}
	var sb strings.Builder
	var expr func(x *Term, top bool) string
	expr = func(x *Term, top bool) string {
		if !top {
			if n, ok := names[x]; ok {
				return n
			}
		}
		switch x.Op {
		case OpConst:
			return constSMT(x.W, x.Val)
		case OpVar, OpArrVar:
			return smtName(x.Name)
		case OpZExt:
			return fmt.Sprintf("((_ zero_extend %d) %s)", x.W-x.Args[0].W, expr(x.Args[0], false))
		case OpSExt:
			return fmt.Sprintf("((_ sign_extend %d) %s)", x.W-x.Args[0].W, expr(x.Args[0], false))
		case OpExtract:
			return fmt.Sprintf("((_ extract %d 0) %s)", x.W-1, expr(x.Args[0], false))
		case OpLut:
			ix := expr(x.Args[0], false)
			var b strings.Builder
			n := len(x.Lut)
			// runs of equal values are emitted as one range test to keep the text short
			closing := 0
			for k := 0; k < n-1; {
				j := k
				for j+1 < n-1 && x.Lut[j+1] == x.Lut[k] {
					j++
				}
				if j == k {
					fmt.Fprintf(&b, "(ite (= %s %s) %s ", ix, constSMT(x.Args[0].W, uint64(k)), constSMT(x.W, x.Lut[k]))
				} else {
					fmt.Fprintf(&b, "(ite (and (bvule %s %s) (bvule %s %s)) %s ", constSMT(x.Args[0].W, uint64(k)), ix, ix, constSMT(x.Args[0].W, uint64(j)), constSMT(x.W, x.Lut[k]))
				}
				closing++
				k = j + 1
			}
			b.WriteString(constSMT(x.W, x.Lut[n-1]))
			for k := 0; k < closing; k++ {
				b.WriteByte(')')
			}
			return b.String()
		}
		var b strings.Builder
		b.WriteByte('(')
		b.WriteString(opNames[x.Op])
		for _, a := range x.Args {
			b.WriteByte(' ')
			b.WriteString(expr(a, false))
		}
		b.WriteByte(')')
		return b.String()
	}
	nlet := 0
	for _, x := range order {
		if x == t {
			continue
		}
		if refs[x] > 1 && len(x.Args) > 0 {
			n := "_t" + strconv.Itoa(x.id)
			sb.WriteString("(let ((" + n + " " + expr(x, true) + ")) ")
			names[x] = n
			nlet++
		}
	}
	sb.WriteString(expr(t, true))
	for i := 0; i < nlet; i++ {
		sb.WriteByte(')')
	}
	return sb.String()
}

func (t *Term) String() string {
	s := SMT(t)
	if len(s) > 300 {
		s = s[:300] + "..."
	}
	return s
}
