package main

// Interpreter values.
//
//  bool | *Term(W=0)                       booleans
//  int64 | *Term(W=8..64)                  all integer kinds (normalised to the static type: sign- or zero-extended)
//  float64                                 floats (concrete only)
//  string | *SymStr                        strings (SymStr has at least one symbolic byte)
//  *Value                                  pointers (Go pointers into interpreter cells)
//  Struct, Array, Tuple                    aggregates ([]Value)
//  Slice                                   slices (Go slice header over the backing cells)
//  *MapObj                                 maps (ordered entry lists)
//  Iface                                   interfaces (dynamic type + value)
//  *ssa.Function | *Closure | *ssa.Builtin | nilFunc   functions
//  RValue, RType                           reflect model
//  *SymArr                                 abstract int slice (symbolic length, SMT array contents)

import (
	"fmt"
	"go/types"
	"strconv"
	"strings"

	"golang.org/x/tools/go/ssa"
)

type Value = interface{}

type Struct []Value
type Array []Value
type Tuple []Value

type Slice struct {
	a []Value // nil => nil slice
}

type Iface struct {
	t types.Type // nil => nil interface
	v Value
}

type Closure struct {
	Fn  *ssa.Function
	Env []Value
}

type nilFunc struct{}

// SymStr is an immutable string with at least one symbolic byte.
type SymStr struct {
	b []Value // int64 (0..255) or *Term (W=8)
}

// Bound method value produced by the reflect model / MakeClosure on bound wrappers is handled by ssa itself.

type unsafePtr struct {
	p *Value
}

// ---------------------------------------------------------------- type info

type intKind struct {
	w      uint8
	signed bool
}

func basicIntKind(k types.BasicKind) (intKind, bool) {
	switch k {
	case types.Int, types.Int64, types.UntypedInt:
		return intKind{64, true}, true
	case types.Int8:
		return intKind{8, true}, true
	case types.Int16:
		return intKind{16, true}, true
	case types.Int32, types.UntypedRune:
		return intKind{32, true}, true
	case types.Uint, types.Uint64, types.Uintptr:
		return intKind{64, false}, true
	case types.Uint8:
		return intKind{8, false}, true
	case types.Uint16:
		return intKind{16, false}, true
	case types.Uint32:
		return intKind{32, false}, true
	}
	return intKind{}, false
}

func intInfo(t types.Type) (intKind, bool) {
	if b, ok := t.Underlying().(*types.Basic); ok {
		return basicIntKind(b.Kind())
	}
	return intKind{}, false
}

func isBool(t types.Type) bool {
	b, ok := t.Underlying().(*types.Basic)
	return ok && b.Info()&types.IsBoolean != 0
}
func isString(t types.Type) bool {
	b, ok := t.Underlying().(*types.Basic)
	return ok && b.Info()&types.IsString != 0
}
func isFloat(t types.Type) bool {
	b, ok := t.Underlying().(*types.Basic)
	return ok && b.Info()&types.IsFloat != 0
}

func normInt(k intKind, x int64) int64 {
	if k.w >= 64 {
		return x
	}
	if k.signed {
		sh := 64 - uint(k.w)
		return (x << sh) >> sh
	}
	return int64(uint64(x) & ((uint64(1) << k.w) - 1))
}

func isReflectValueType(t types.Type) bool {
	n, ok := t.(*types.Named)
	if !ok {
		return false
	}
	o := n.Obj()
	return o.Name() == "Value" && o.Pkg() != nil && o.Pkg().Path() == "reflect"
}

func isNamed(t types.Type, pkg, name string) bool {
	n, ok := t.(*types.Named)
	if !ok {
		return false
	}
	o := n.Obj()
	return o.Name() == name && o.Pkg() != nil && o.Pkg().Path() == pkg
}

// zero returns the zero value of t.
func zero(t types.Type) Value {
	switch tt := t.(type) {
	case *types.Named:
		if isReflectValueType(t) {
			return RValue{}
		}
		return zero(tt.Underlying())
	case *types.Alias:
		return zero(types.Unalias(t))
	case *types.Basic:
		switch {
		case tt.Kind() == types.UntypedNil:
			panic("untyped nil has no zero value")
		case tt.Info()&types.IsBoolean != 0:
			return false
		case tt.Info()&types.IsInteger != 0:
			return int64(0)
		case tt.Info()&types.IsFloat != 0:
			return float64(0)
		case tt.Info()&types.IsString != 0:
			return ""
		case tt.Kind() == types.UnsafePointer:
			return unsafePtr{}
		case tt.Info()&types.IsComplex != 0:
			return complex128(0)
		}
	case *types.Pointer:
		return (*Value)(nil)
	case *types.Array:
		a := make(Array, tt.Len())
		et := tt.Elem()
		for i := range a {
			a[i] = zero(et)
		}
		return a
	case *types.Slice:
		return Slice{}
	case *types.Struct:
		s := make(Struct, tt.NumFields())
		for i := range s {
			s[i] = zero(tt.Field(i).Type())
		}
		return s
	case *types.Tuple:
		if tt.Len() == 1 {
			return zero(tt.At(0).Type())
		}
		s := make(Tuple, tt.Len())
		for i := range s {
			s[i] = zero(tt.At(i).Type())
		}
		return s
	case *types.Chan:
		return (*chanObj)(nil)
	case *types.Map:
		return (*MapObj)(nil)
	case *types.Signature:
		return nilFunc{}
	case *types.Interface:
		return Iface{}
	}
	panic(fmt.Sprintf("zero: unexpected type %T %v", t, t))
}

type chanObj struct{}

// copyVal returns a copy of aggregates (structs and arrays are values in Go).
func copyVal(v Value) Value {
	switch v := v.(type) {
	case Struct:
		c := make(Struct, len(v))
		for i, x := range v {
			c[i] = copyVal(x)
		}
		return c
	case Array:
		c := make(Array, len(v))
		for i, x := range v {
			c[i] = copyVal(x)
		}
		return c
	}
	return v
}

// storeInPlace writes v into *addr keeping the identity of aggregate cells,
// so that pointers to fields/elements of *addr stay valid.
func storeInPlace(addr *Value, v Value) {
	switch rhs := v.(type) {
	case Struct:
		if lhs, ok := (*addr).(Struct); ok && len(lhs) == len(rhs) {
			for i := range lhs {
				storeInPlace(&lhs[i], rhs[i])
			}
			return
		}
		*addr = copyVal(v)
	case Array:
		if lhs, ok := (*addr).(Array); ok && len(lhs) == len(rhs) {
			for i := range lhs {
				storeInPlace(&lhs[i], rhs[i])
			}
			return
		}
		*addr = copyVal(v)
	default:
		*addr = v
	}
}

// ---------------------------------------------------------------- strings

func strLen(v Value) int {
	switch s := v.(type) {
	case string:
		return len(s)
	case *SymStr:
		return len(s.b)
	}
	panic(fmt.Sprintf("strLen: %T", v))
}

func strAt(v Value, i int) Value {
	switch s := v.(type) {
	case string:
		return int64(s[i])
	case *SymStr:
		return s.b[i]
	}
	panic(fmt.Sprintf("strAt: %T", v))
}

func strBytes(v Value) []Value {
	switch s := v.(type) {
	case string:
		b := make([]Value, len(s))
		for i := 0; i < len(s); i++ {
			b[i] = int64(s[i])
		}
		return b
	case *SymStr:
		return s.b
	}
	panic(fmt.Sprintf("strBytes: %T", v))
}

// mkStr builds a string value from byte values (copying), collapsing to a Go string when concrete.
func mkStr(b []Value) Value {
	conc := true
	for _, x := range b {
		if _, ok := x.(*Term); ok {
			conc = false
			break
		}
	}
	if conc {
		var sb strings.Builder
		sb.Grow(len(b))
		for _, x := range b {
			sb.WriteByte(byte(x.(int64)))
		}
		return sb.String()
	}
	return &SymStr{b: append([]Value(nil), b...)}
}

func strSlice(v Value, lo, hi int) Value {
	switch s := v.(type) {
	case string:
		return s[lo:hi]
	case *SymStr:
		return mkStr(s.b[lo:hi])
	}
	panic("strSlice")
}

func strConcat(a, b Value) Value {
	if as, ok := a.(string); ok {
		if bs, ok := b.(string); ok {
			return as + bs
		}
	}
	ab, bb := strBytes(a), strBytes(b)
	r := make([]Value, 0, len(ab)+len(bb))
	r = append(r, ab...)
	r = append(r, bb...)
	return mkStr(r)
}

// ---------------------------------------------------------------- printing (debug / replay rendering)

func valString(v Value) string {
	switch v := v.(type) {
	case nil:
		return "<nil>"
	case bool:
		return strconv.FormatBool(v)
	case int64:
		return strconv.FormatInt(v, 10)
	case float64:
		return strconv.FormatFloat(v, 'g', -1, 64)
	case string:
		return strconv.Quote(v)
	case *SymStr:
		var sb strings.Builder
		sb.WriteString("sym\"")
		for _, x := range v.b {
			if c, ok := x.(int64); ok {
				sb.WriteByte(byte(c))
			} else {
				sb.WriteString("?")
			}
		}
		sb.WriteString("\"")
		return sb.String()
	case *Term:
		return v.String()
	case *Value:
		if v == nil {
			return "nil-ptr"
		}
		return fmt.Sprintf("&%p", v)
	case Struct:
		var p []string
		for _, x := range v {
			p = append(p, valString(x))
		}
		return "{" + strings.Join(p, ", ") + "}"
	case Array:
		return fmt.Sprintf("array[%d]", len(v))
	case Slice:
		if v.a == nil {
			return "nil-slice"
		}
		if len(v.a) <= 64 {
			var p []string
			for _, x := range v.a {
				p = append(p, valString(x))
			}
			return "[" + strings.Join(p, " ") + "]"
		}
		return fmt.Sprintf("slice[%d]", len(v.a))
	case Iface:
		if v.t == nil {
			return "nil-iface"
		}
		return "iface(" + v.t.String() + ":" + valString(v.v) + ")"
	case Tuple:
		var p []string
		for _, x := range v {
			p = append(p, valString(x))
		}
		return "(" + strings.Join(p, ", ") + ")"
	case *MapObj:
		if v == nil {
			return "nil-map"
		}
		return fmt.Sprintf("map[%d]", v.Len())
	case *ssa.Function:
		return v.String()
	case *Closure:
		return "closure " + v.Fn.String()
	}
	return fmt.Sprintf("%T", v)
}
