package main

// Recursive interpreter over go/ssa function bodies (structure follows
// golang.org/x/tools/go/ssa/interp, BSD licence), with symbolic scalars.

import (
	"fmt"
	"go/constant"
	"go/token"
	"go/types"
	"os"
	"runtime/debug"
	"strings"

	"golang.org/x/tools/go/ssa"
)

// targetPanic is a Go-level panic of the interpreted program.
type targetPanic struct {
	v Value // an Iface
}

// abortPath ends the current path; it is never visible to the target program.
type abortPath struct {
	reason string // "infeasible", "budget", "unsupported: …", "cap", "exit"
	detail string
}

// enginePanic wraps a Go panic raised inside the engine itself (a bug or an unmodelled case).
type enginePanic struct {
	v     interface{}
	stack string
	where string
}

func (e enginePanic) String() string {
	st := e.stack
	if k := strings.Index(st, "panic("); k >= 0 {
		st = st[k:]
	}
	if os.Getenv("GOSX_DEBUG") == "" {
		st = firstFrames(st, 3)
	} else if len(st) > 2500 {
		st = st[:2500]
	}
	return fmt.Sprintf("%v\n%s\n%s", e.v, e.where, st)
}

func firstFrames(st string, n int) string {
	lines := strings.Split(st, "\n")
	var out []string
	for _, l := range lines {
		if strings.HasPrefix(l, "main.") || strings.HasPrefix(l, "\t/verif") {
			out = append(out, l)
			if len(out) >= 2*n {
				break
			}
		}
	}
	return strings.Join(out, "\n")
}

type fnInfo struct {
	slots map[ssa.Value]int
	n     int
	phis  map[*ssa.BasicBlock]int // number of leading phis per block
}

type Interp struct {
	feedsIdx     map[ssa.Value]bool
	redirect     map[string]*ssa.Function
	redirectAny  map[string]*ssa.Function
	prog         *ssa.Program
	globals      map[*ssa.Global]*Value
	fninfo       map[*ssa.Function]*fnInfo
	consts       map[*ssa.Const]Value
	ex           *Exec
	initPkgs     map[string]bool // packages whose init is executed
	runtimeErr   types.Type
	errorIface   types.Type
	canon        *typeCanon
	depth        int
	snap         map[*ssa.Global]Value // post-init snapshot of restorable globals
	pools        map[*Value]*poolState
	syncMaps     map[*Value]*MapObj
	intrinsics   map[string]intrinsic
	cover        map[*ssa.BasicBlock]bool
	coverFns     map[*ssa.Function]bool
	mapReverse   bool
	mapAlternate bool // every other map iteration of a path runs in reverse insertion order (C09: order must not show)
	mapRanges    int
	calledFns    map[*ssa.Function]bool
	rtypeT       *types.Named
	onceDone     map[*Value]bool
	onceSnap     map[*Value]bool
	wgCount      map[*Value]int64
	lastPanicMsg string
	lastPos      token.Pos
	noMerge      bool
}

type intrinsic func(fr *frame, args []Value) Value

type deferred struct {
	fn    Value
	args  []Value
	instr *ssa.Defer
	tail  *deferred
}

type frame struct {
	i         *Interp
	caller    *frame
	fn        *ssa.Function
	block     *ssa.BasicBlock
	prevBlock *ssa.BasicBlock
	env       []Value
	info      *fnInfo
	defers    *deferred
	result    Value
	panicking bool
	panic     interface{}
	depth     int
	curPos    token.Pos
	phiOv     []Value
}

func (i *Interp) info(fn *ssa.Function) *fnInfo {
	if fi, ok := i.fninfo[fn]; ok {
		return fi
	}
	fi := &fnInfo{slots: map[ssa.Value]int{}, phis: map[*ssa.BasicBlock]int{}}
	add := func(v ssa.Value) {
		fi.slots[v] = fi.n
		fi.n++
	}
	for _, p := range fn.Params {
		add(p)
	}
	for _, fv := range fn.FreeVars {
		add(fv)
	}
	for _, b := range fn.Blocks {
		np := 0
		for k, ins := range b.Instrs {
			if _, ok := ins.(*ssa.Phi); ok && k == np {
				np++
			}
			if v, ok := ins.(ssa.Value); ok {
				add(v)
			}
		}
		fi.phis[b] = np
	}
	i.fninfo[fn] = fi
	if fi.n > 1500 && os.Getenv("GOSX_DEBUG") != "" {
		fmt.Fprintf(os.Stderr, "big frame: %s n=%d\n", fn, fi.n)
	}
	return fi
}

func (fr *frame) get(key ssa.Value) Value {
	switch key := key.(type) {
	case nil:
		return nil
	case *ssa.Function:
		return key
	case *ssa.Builtin:
		return key
	case *ssa.Const:
		return fr.i.constValue(key)
	case *ssa.Global:
		if r, ok := fr.i.globals[key]; ok {
			return r
		}
		// lazily create globals of packages that were not pre-registered
		cell := new(Value)
		*cell = zero(deref(key.Type()))
		fr.i.globals[key] = cell
		return cell
	}
	if s, ok := fr.info.slots[key]; ok {
		return fr.env[s]
	}
	panic(fmt.Sprintf("get: no value for %T: %v in %s", key, key.Name(), fr.fn))
}

func (fr *frame) set(key ssa.Value, v Value) {
	fr.env[fr.info.slots[key]] = v
}

func deref(t types.Type) types.Type {
	if p, ok := t.Underlying().(*types.Pointer); ok {
		return p.Elem()
	}
	panic("deref of non-pointer " + t.String())
}

func (i *Interp) constValue(c *ssa.Const) Value {
	if v, ok := i.consts[c]; ok {
		return v
	}
	v := constValue1(c)
	i.consts[c] = v
	return v
}

func constValue1(c *ssa.Const) Value {
	if c.Value == nil {
		return zero(c.Type())
	}
	if t, ok := c.Type().Underlying().(*types.Basic); ok {
		switch {
		case t.Info()&types.IsBoolean != 0:
			return constant.BoolVal(c.Value)
		case t.Info()&types.IsString != 0:
			if c.Value.Kind() == constant.String {
				return constant.StringVal(c.Value)
			}
			return string(rune(c.Int64()))
		case t.Info()&types.IsInteger != 0:
			k, _ := basicIntKind(t.Kind())
			if k.signed {
				return normInt(k, c.Int64())
			}
			return normInt(k, int64(c.Uint64()))
		case t.Info()&types.IsFloat != 0:
			f := c.Float64()
			if t.Kind() == types.Float32 {
				return float64(float32(f))
			}
			return f
		case t.Info()&types.IsComplex != 0:
			return c.Complex128()
		}
	}
	panic(fmt.Sprintf("constValue: %s", c))
}

func (i *Interp) unsupported(what string) {
	panic(abortPath{reason: "unsupported", detail: what})
}

// goPanicString raises a runtime-error panic in the target program.
func (i *Interp) rtPanic(msg string) {
	panic(targetPanic{Iface{t: i.runtimeErr, v: "runtime error: " + msg}})
}

func (fr *frame) runDefer(d *deferred) {
	var ok bool
	defer func() {
		if !ok {
			r := recover()
			if ap, isAbort := r.(abortPath); isAbort {
				panic(ap)
			}
			fr.panicking = true
			fr.panic = r
		}
	}()
	fr.i.call(fr, d.instr.Pos(), d.fn, d.args)
	ok = true
}

func (fr *frame) runDefers() {
	for d := fr.defers; d != nil; d = d.tail {
		fr.runDefer(d)
	}
	fr.defers = nil
	if fr.panicking {
		panic(fr.panic)
	}
}

const (
	kNext = iota
	kReturn
	kJump
)

func (i *Interp) lookupMethod(typ types.Type, meth *types.Func) *ssa.Function {
	return i.prog.LookupMethod(typ, meth.Pkg(), meth.Name())
}

func visitInstr(fr *frame, instr ssa.Instruction) int {
	i := fr.i
	switch instr := instr.(type) {
	case *ssa.DebugRef:
	case *ssa.UnOp:
		fr.set(instr, i.unop(instr, fr.get(instr.X)))
	case *ssa.BinOp:
		fr.set(instr, i.binop(instr.Op, instr.X.Type(), instr.Y.Type(), fr.get(instr.X), fr.get(instr.Y)))
	case *ssa.Call:
		fn, args := i.prepareCall(fr, &instr.Call)
		fr.set(instr, i.call(fr, instr.Pos(), fn, args))
	case *ssa.ChangeInterface:
		fr.set(instr, fr.get(instr.X))
	case *ssa.ChangeType:
		fr.set(instr, fr.get(instr.X))
	case *ssa.Convert:
		fr.set(instr, i.conv(instr.Type(), instr.X.Type(), fr.get(instr.X)))
	case *ssa.SliceToArrayPointer:
		i.unsupported("SliceToArrayPointer")
	case *ssa.MakeInterface:
		fr.set(instr, Iface{t: instr.X.Type(), v: fr.get(instr.X)})
	case *ssa.Extract:
		fr.set(instr, fr.get(instr.Tuple).(Tuple)[instr.Index])
	case *ssa.Slice:
		fr.set(instr, i.slice(instr, fr.get(instr.X), fr.get(instr.Low), fr.get(instr.High), fr.get(instr.Max)))
	case *ssa.Return:
		switch len(instr.Results) {
		case 0:
		case 1:
			fr.result = fr.get(instr.Results[0])
		default:
			res := make(Tuple, len(instr.Results))
			for k, r := range instr.Results {
				res[k] = fr.get(r)
			}
			fr.result = res
		}
		fr.block = nil
		return kReturn
	case *ssa.RunDefers:
		fr.runDefers()
	case *ssa.Panic:
		panic(targetPanic{fr.get(instr.X)})
	case *ssa.Send, *ssa.Go, *ssa.MakeChan, *ssa.Select:
		i.unsupported(fmt.Sprintf("%T (goroutines/channels)", instr))
	case *ssa.Store:
		addr := fr.get(instr.Addr)
		switch a := addr.(type) {
		case *Value:
			if a == nil {
				i.rtPanic("invalid memory address or nil pointer dereference")
			}
			i.ex.onStore(a)
			storeInPlace(a, fr.get(instr.Val))
		case *symCell:
			a.store(i, fr.get(instr.Val))
		default:
			panic(fmt.Sprintf("store to %T", addr))
		}
	case *ssa.If:
		cond := fr.get(instr.Cond)
		if ct, ok := cond.(*Term); ok && !i.noMerge {
			if i.ifConvert(fr, ct) {
				return kJump
			}
			// case-list merging: `case a, b, c:` lowers to a chain of test blocks that all jump to
			// the same body; decide the disjunction once instead of forking per case value
			cur := fr.block
			acc := ct
			T := cur.Succs[0]
			for {
				F := cur.Succs[1]
				ok, c2 := i.pureTestBlock(fr, F, T)
				if !ok {
					break
				}
				acc = i.tt().Or(acc, c2)
				cur = F
			}
			if cur != fr.block {
				// the chain may end in a pure block that feeds the same join (last alternative of a || chain)
				save := fr.block
				fr.block = cur
				if i.ifConvert(fr, acc) {
					return kJump
				}
				fr.block = save
				if i.ex.decide(acc) {
					fr.prevBlock, fr.block = cur, T
				} else {
					fr.prevBlock, fr.block = cur, cur.Succs[1]
				}
				return kJump
			}
		}
		succ := 1
		if i.truth(cond) {
			succ = 0
		}
		fr.prevBlock, fr.block = fr.block, fr.block.Succs[succ]
		return kJump
	case *ssa.Jump:
		fr.prevBlock, fr.block = fr.block, fr.block.Succs[0]
		return kJump
	case *ssa.Defer:
		fn, args := i.prepareCall(fr, &instr.Call)
		fr.defers = &deferred{fn: fn, args: args, instr: instr, tail: fr.defers}
	case *ssa.Alloc:
		addr := new(Value)
		*addr = zero(deref(instr.Type()))
		fr.set(instr, addr)
	case *ssa.MakeSlice:
		n := i.concInt(fr.get(instr.Len), "make len")
		c := i.concInt(fr.get(instr.Cap), "make cap")
		if n < 0 || c < n || c > 1<<24 {
			i.rtPanic("makeslice: len out of range")
		}
		s := make([]Value, c)
		tElt := instr.Type().Underlying().(*types.Slice).Elem()
		z := zero(tElt)
		for k := range s {
			s[k] = copyVal(z)
		}
		fr.set(instr, Slice{s[:n]})
	case *ssa.MakeMap:
		fr.set(instr, newMap())
	case *ssa.Range:
		fr.set(instr, i.rangeIter(fr, fr.get(instr.X), instr.X.Type()))
	case *ssa.Next:
		fr.set(instr, fr.get(instr.Iter).(iter).next(fr))
	case *ssa.FieldAddr:
		p := fr.get(instr.X).(*Value)
		if p == nil {
			i.rtPanic("invalid memory address or nil pointer dereference")
		}
		fr.set(instr, &(*p).(Struct)[instr.Field])
	case *ssa.Field:
		fr.set(instr, copyVal(fr.get(instr.X).(Struct)[instr.Field]))
	case *ssa.IndexAddr:
		fr.set(instr, i.indexAddr(fr.get(instr.X), fr.get(instr.Index), instr))
	case *ssa.Index:
		fr.set(instr, i.index(fr.get(instr.X), fr.get(instr.Index), instr))
	case *ssa.Lookup:
		fr.set(instr, i.lookup(instr, fr.get(instr.X), fr.get(instr.Index)))
	case *ssa.MapUpdate:
		m := fr.get(instr.Map).(*MapObj)
		if m == nil {
			panic(targetPanic{Iface{t: i.runtimeErr, v: "assignment to entry in nil map"}})
		}
		m.insert(i, fr.get(instr.Key), copyVal(fr.get(instr.Value)))
	case *ssa.TypeAssert:
		fr.set(instr, i.typeAssert(instr, fr.get(instr.X).(Iface)))
	case *ssa.MakeClosure:
		bindings := make([]Value, len(instr.Bindings))
		for k, b := range instr.Bindings {
			bindings[k] = fr.get(b)
		}
		fr.set(instr, &Closure{instr.Fn.(*ssa.Function), bindings})
	case *ssa.Phi:
		panic("unreachable: phi")
	default:
		panic(fmt.Sprintf("unexpected instruction: %T", instr))
	}
	return kNext
}

// pureTestBlock reports whether block b (reached on the false edge of a test whose true edge
// goes to T) consists only of side-effect-free scalar computations followed by an If whose
// true edge also goes to T, and T has no phis. If so it evaluates b and returns its condition.
func (i *Interp) pureTestBlock(fr *frame, b, T *ssa.BasicBlock) (bool, *Term) {
	if len(b.Preds) != 1 || len(b.Instrs) == 0 || len(b.Instrs) > 4 || b == T {
		return false, nil
	}
	if np := fr.info.phis[T]; np != 0 {
		// allowed when every phi of T receives the same value from b as from b's predecessor
		pi, bi := -1, -1
		for k, p := range T.Preds {
			if p == b.Preds[0] {
				pi = k
			}
			if p == b {
				bi = k
			}
		}
		if pi < 0 || bi < 0 {
			return false, nil
		}
		for _, ins := range T.Instrs[:np] {
			phi := ins.(*ssa.Phi)
			if !sameSSAValue(phi.Edges[pi], phi.Edges[bi]) {
				return false, nil
			}
		}
	}
	last, ok := b.Instrs[len(b.Instrs)-1].(*ssa.If)
	if !ok || b.Succs[0] != T || b.Succs[1] == T {
		return false, nil
	}
	for _, ins := range b.Instrs[:len(b.Instrs)-1] {
		switch ins := ins.(type) {
		case *ssa.BinOp:
			switch ins.Op {
			case token.EQL, token.NEQ, token.LSS, token.LEQ, token.GTR, token.GEQ, token.ADD, token.SUB, token.AND, token.OR, token.XOR:
				if _, isInt := intInfo(ins.X.Type()); !isInt {
					return false, nil
				}
			default:
				return false, nil
			}
		case *ssa.Convert:
			if _, ok := intInfo(ins.X.Type()); !ok {
				return false, nil
			}
			if _, ok := intInfo(ins.Type()); !ok {
				return false, nil
			}
		case *ssa.DebugRef:
		default:
			return false, nil
		}
	}
	for _, ins := range b.Instrs[:len(b.Instrs)-1] {
		visitInstr(fr, ins)
	}
	i.ex.steps += int64(len(b.Instrs))
	switch c := fr.get(last.Cond).(type) {
	case *Term:
		return true, c
	case bool:
		return true, i.tt().Bool(c)
	}
	return false, nil
}

// pureJumpBlock reports whether b has the single predecessor pred, contains only
// side-effect-free scalar computations that cannot panic, and ends in a jump.
func pureJumpBlock(b, pred *ssa.BasicBlock) bool {
	if len(b.Preds) != 1 || b.Preds[0] != pred || len(b.Instrs) == 0 || len(b.Instrs) > 6 {
		return false
	}
	if _, ok := b.Instrs[len(b.Instrs)-1].(*ssa.Jump); !ok {
		return false
	}
	for _, ins := range b.Instrs[:len(b.Instrs)-1] {
		switch ins := ins.(type) {
		case *ssa.BinOp:
			switch ins.Op {
			case token.EQL, token.NEQ, token.LSS, token.LEQ, token.GTR, token.GEQ, token.ADD, token.SUB, token.AND, token.OR, token.XOR, token.MUL:
				_, isInt := intInfo(ins.X.Type())
				if !isInt && !isBool(ins.X.Type()) {
					return false
				}
			default:
				return false
			}
		case *ssa.UnOp:
			if ins.Op != token.NOT && ins.Op != token.SUB && ins.Op != token.XOR {
				return false
			}
		case *ssa.Convert:
			if _, ok := intInfo(ins.X.Type()); !ok {
				return false
			}
			if _, ok := intInfo(ins.Type()); !ok {
				return false
			}
		case *ssa.DebugRef:
		default:
			return false
		}
	}
	return true
}

func predIndexOf(b, pred *ssa.BasicBlock) int {
	for k, p := range b.Preds {
		if p == pred {
			return k
		}
	}
	return -1
}

// ifConvert turns a triangle or diamond whose arms are pure scalar blocks into
// ite-terms on the join block's phis (no fork). Go's && and || on scalar
// comparisons and `x := a; if c { x = b }` have this shape.
func (i *Interp) ifConvert(fr *frame, cond *Term) bool {
	cur := fr.block
	s0, s1 := cur.Succs[0], cur.Succs[1]
	var D, rT, rF *ssa.BasicBlock // join, arm taken when cond is true / false (nil = direct edge)
	switch {
	case pureJumpBlock(s0, cur) && s0.Succs[0] == s1:
		D, rT = s1, s0
	case pureJumpBlock(s1, cur) && s1.Succs[0] == s0:
		D, rF = s0, s1
	case pureJumpBlock(s0, cur) && pureJumpBlock(s1, cur) && s0.Succs[0] == s1.Succs[0]:
		D, rT, rF = s0.Succs[0], s0, s1
	default:
		return false
	}
	np := fr.info.phis[D]
	if np == 0 || D == cur {
		return false
	}
	predT, predF := cur, cur
	if rT != nil {
		predT = rT
	}
	if rF != nil {
		predF = rF
	}
	iT, iF := predIndexOf(D, predT), predIndexOf(D, predF)
	if iT < 0 || iF < 0 || iT == iF {
		return false
	}
	// all phis must be scalar (bool / integer); an integer that goes on to index or slice something
	// is better decided by forking (a symbolic position turns every later access into an ite table)
	for _, ins := range D.Instrs[:np] {
		phi := ins.(*ssa.Phi)
		if _, ok := intInfo(phi.Type()); ok {
			if i.feedsIndex(phi) {
				return false
			}
		} else if !isBool(phi.Type()) {
			return false
		}
	}
	n := 0
	if rT != nil {
		for _, ins := range rT.Instrs[:len(rT.Instrs)-1] {
			visitInstr(fr, ins)
			n++
		}
	}
	if rF != nil {
		for _, ins := range rF.Instrs[:len(rF.Instrs)-1] {
			visitInstr(fr, ins)
			n++
		}
	}
	i.ex.steps += int64(n)
	tt := i.tt()
	ov := make([]Value, np)
	for k, ins := range D.Instrs[:np] {
		phi := ins.(*ssa.Phi)
		vT, vF := fr.get(phi.Edges[iT]), fr.get(phi.Edges[iF])
		if ik, ok := intInfo(phi.Type()); ok {
			ov[k] = i.intVal(ik, tt.Ite(cond, i.toTerm(vT, ik.w), i.toTerm(vF, ik.w)))
		} else {
			ov[k] = boolVal(tt.Ite(cond, i.toTerm(vT, 0), i.toTerm(vF, 0)))
		}
	}
	fr.phiOv = ov
	fr.prevBlock, fr.block = predT, D
	return true
}

// feedsIndex reports whether v (an integer SSA value) is used, through at most a few arithmetic/phi
// steps, as an index, slice bound or make size.
func (i *Interp) feedsIndex(v ssa.Value) bool {
	if i.feedsIdx == nil {
		i.feedsIdx = map[ssa.Value]bool{}
	}
	if r, ok := i.feedsIdx[v]; ok {
		return r
	}
	seen := map[ssa.Value]bool{}
	var walk func(x ssa.Value, depth int) bool
	walk = func(x ssa.Value, depth int) bool {
		if seen[x] {
			return false
		}
		seen[x] = true
		refs := x.Referrers()
		if refs == nil {
			return false
		}
		for _, r := range *refs {
			switch r := r.(type) {
			case *ssa.IndexAddr:
				if r.Index == x {
					return true
				}
			case *ssa.Index:
				if r.Index == x {
					return true
				}
			case *ssa.Slice:
				if r.Low == x || r.High == x || r.Max == x {
					return true
				}
			case *ssa.MakeSlice:
				return true
			case *ssa.BinOp:
				switch r.Op {
				case token.ADD, token.SUB:
					if depth > 0 && walk(r, depth-1) {
						return true
					}
				}
			case *ssa.Phi:
				if depth > 0 && walk(r, depth-1) {
					return true
				}
			case *ssa.Convert:
				if depth > 0 && walk(r, depth-1) {
					return true
				}
			}
		}
		return false
	}
	r := walk(v, 4)
	i.feedsIdx[v] = r
	return r
}

// redirectFrom: only the command's own functions (package main, not the harness stubs themselves) are redirected.
func (i *Interp) redirectFrom(caller *ssa.Function) bool {
	for caller.Parent() != nil {
		caller = caller.Parent()
	}
	if caller.Pkg == nil || caller.Pkg.Pkg.Name() != "main" {
		return false
	}
	n := caller.Name()
	return !strings.HasPrefix(n, "vxstub_") && !strings.HasPrefix(n, "H_") && !strings.HasPrefix(n, "vx")
}

// nextMapOrder decides the direction of the next map iteration.
func (i *Interp) nextMapOrder() bool {
	if i.mapAlternate {
		i.mapRanges++
		return i.mapRanges%2 == 0
	}
	return i.mapReverse
}

func sameSSAValue(a, b ssa.Value) bool {
	if a == b {
		return true
	}
	ca, ok1 := a.(*ssa.Const)
	cb, ok2 := b.(*ssa.Const)
	if ok1 && ok2 && types.Identical(ca.Type(), cb.Type()) {
		if ca.Value == nil || cb.Value == nil {
			return ca.Value == nil && cb.Value == nil
		}
		return constant.Compare(ca.Value, token.EQL, cb.Value)
	}
	return false
}

// truth turns a boolean value into a concrete branch decision (forking if symbolic).
func (i *Interp) truth(v Value) bool {
	switch v := v.(type) {
	case bool:
		return v
	case *Term:
		return i.ex.decide(v)
	}
	panic(fmt.Sprintf("truth: %T", v))
}

// concInt returns a concrete integer, concretising a symbolic one by forking.
func (i *Interp) concInt(v Value, what string) int64 {
	switch v := v.(type) {
	case int64:
		return v
	case *Term:
		return int64(sext64(v.W, i.ex.concretize(v, what)))
	case nil:
		return 0
	}
	panic(fmt.Sprintf("concInt(%s): %T", what, v))
}

func (i *Interp) prepareCall(fr *frame, call *ssa.CallCommon) (fn Value, args []Value) {
	v := fr.get(call.Value)
	if call.Method == nil {
		fn = v
		args = make([]Value, 0, len(call.Args))
	} else {
		recv := v.(Iface)
		if recv.t == nil {
			i.rtPanic("invalid memory address or nil pointer dereference (method call on nil interface)")
		}
		args = make([]Value, 0, len(call.Args)+1)
		if _, ok := recv.v.(RType); ok {
			fn = rtypeMethod{call.Method.Name()}
		} else if f := i.lookupMethod(recv.t, call.Method); f == nil {
			panic(fmt.Sprintf("method set for dynamic type %v does not contain %s", recv.t, call.Method))
		} else {
			fn = f
		}
		args = append(args, recv.v)
	}
	for _, arg := range call.Args {
		args = append(args, fr.get(arg))
	}
	return
}

type rtypeMethod struct{ name string }

func (i *Interp) call(caller *frame, pos token.Pos, fn Value, args []Value) Value {
	switch fn := fn.(type) {
	case *ssa.Function:
		if fn == nil {
			i.rtPanic("call of nil function")
		}
		return i.callSSA(caller, pos, fn, args, nil)
	case *Closure:
		return i.callSSA(caller, pos, fn.Fn, args, fn.Env)
	case *ssa.Builtin:
		return i.callBuiltin(caller, pos, fn, args)
	case rtypeMethod:
		return i.callRTypeMethod(caller, fn.name, args)
	case nilFunc:
		i.rtPanic("invalid memory address or nil pointer dereference (call of nil func)")
	}
	panic(fmt.Sprintf("cannot call %T", fn))
}

func (i *Interp) callSSA(caller *frame, pos token.Pos, fn *ssa.Function, args []Value, env []Value) Value {
	fr := &frame{i: i, caller: caller, fn: fn}
	if i.redirect != nil && fn.Parent() == nil && caller != nil && caller.fn != nil {
		// environment stubs (C20): calls made by the command's own code to I/O functions go to
		// harness-defined stubs with the same signature
		if stub := i.redirect[fn.String()]; stub != nil && i.redirectFrom(caller.fn) {
			fn = stub
			fr.fn = stub
		}
	}
	if i.redirectAny != nil && fn.Parent() == nil && fn.Signature.Recv() != nil {
		if stub := i.redirectAny[fn.String()]; stub != nil {
			fn = stub
			fr.fn = stub
		}
	}
	if fn.Parent() == nil {
		name := fn.String()
		if ext := i.intrinsics[name]; ext != nil {
			return ext(fr, args)
		}
		if fn.Pkg != nil && fn.Pkg.Pkg.Name() == "vx" {
			if ext := i.intrinsics["vx."+fn.Name()]; ext != nil {
				return ext(fr, args)
			}
		}
		if fn.Synthetic != "" && fn.Origin() != nil {
			// instantiated generic: try intrinsic by origin name
			if ext := i.intrinsics[fn.Origin().String()]; ext != nil {
				return ext(fr, args)
			}
		}
		if fn.Name() == "init" && fn.Signature.Recv() == nil && fn.Pkg != nil && strings.HasSuffix(name, ".init") {
			if !i.initPkgs[fn.Pkg.Pkg.Path()] {
				return nil
			}
		}
	}
	if fn.Blocks == nil {
		i.unsupported("no body: " + fn.String())
	}
	if fn.TypeParams().Len() > 0 && len(fn.TypeArgs()) == 0 {
		i.unsupported("uninstantiated generic " + fn.String())
	}
	i.depth++
	fr.depth = i.depth
	if i.depth > 3000 {
		i.depth = 0
		panic(abortPath{reason: "budget", detail: "call depth > 3000 in " + fn.String()})
	}
	if i.calledFns != nil {
		i.calledFns[fn] = true
	}
	fr.info = i.info(fn)
	fr.env = make([]Value, fr.info.n)
	fr.block = fn.Blocks[0]
	for k, p := range fn.Params {
		fr.env[fr.info.slots[p]] = args[k]
	}
	for k, fv := range fn.FreeVars {
		fr.env[fr.info.slots[fv]] = env[k]
	}
	for fr.block != nil {
		runFrame(fr)
	}
	i.depth = fr.depth - 1
	return fr.result
}

func runFrame(fr *frame) {
	defer func() {
		if fr.block == nil {
			return // normal return
		}
		r := recover()
		if ap, ok := r.(abortPath); ok {
			panic(ap)
		}
		if _, ok := r.(targetPanic); !ok {
			// interpreter bug or Go runtime error inside the engine: do not hide it
			if ep, ok := r.(enginePanic); ok {
				if len(ep.where) < 1500 {
					ep.where += "\n  called from " + fr.fn.String()
				}
				panic(ep)
			}
			panic(enginePanic{v: r, stack: string(debug.Stack()), where: "in " + fr.fn.String() + " at " + fr.i.prog.Fset.Position(fr.curPos).String()})
		}
		fr.panicking = true
		fr.panic = r
		fr.i.depth = fr.depth
		fr.runDefers()
		fr.block = fr.fn.Recover
		if fr.block == nil {
			// recovered, function without named results: return zero values
			fr.result = zeroResult(fr.fn)
		}
	}()
	i := fr.i
	for {
		if i.cover != nil && i.coverFns[fr.fn] {
			i.cover[fr.block] = true
		}
		instrs := fr.block.Instrs
		np := fr.info.phis[fr.block]
		if np > 0 && fr.phiOv != nil {
			for k, phi := range instrs[:np] {
				fr.set(phi.(*ssa.Phi), fr.phiOv[k])
			}
			fr.phiOv = nil
		} else if np > 0 {
			predIndex := -1
			for k, p := range fr.block.Preds {
				if p == fr.prevBlock {
					predIndex = k
					break
				}
			}
			var tmp [8]Value
			temps := tmp[:0]
			for _, phi := range instrs[:np] {
				temps = append(temps, fr.get(phi.(*ssa.Phi).Edges[predIndex]))
			}
			for k, phi := range instrs[:np] {
				fr.set(phi.(*ssa.Phi), temps[k])
			}
		}
		i.ex.steps += int64(len(instrs) - np)
		if i.ex.steps > i.ex.budget {
			panic(abortPath{reason: "budget", detail: "instruction budget exceeded in " + fr.fn.String()})
		}
		cont := kNext
		for _, instr := range instrs[np:] {
			if p := instr.Pos(); p != token.NoPos {
				fr.curPos = p
				i.lastPos = p
			}
			cont = visitInstr(fr, instr)
			if cont != kNext {
				break
			}
		}
		if cont == kReturn {
			return
		}
	}
}

func zeroResult(fn *ssa.Function) Value {
	res := fn.Signature.Results()
	switch res.Len() {
	case 0:
		return nil
	case 1:
		return zero(res.At(0).Type())
	}
	return zero(res)
}

// doRecover implements the recover() built-in.
func doRecover(caller *frame) Value {
	if caller != nil && !caller.panicking && caller.caller != nil && caller.caller.panicking {
		caller.caller.panicking = false
		p := caller.caller.panic
		caller.caller.panic = nil
		switch p := p.(type) {
		case targetPanic:
			return p.v
		default:
			panic(fmt.Sprintf("unexpected panic type %T in target call to recover()", p))
		}
	}
	return Iface{}
}
