package main

import (
	"encoding/json"
	"flag"
	"fmt"
	"go/types"
	"math/rand"
	"os"
	"path/filepath"
	"runtime"
	"sort"
	"strconv"
	"strings"
	"time"

	"golang.org/x/tools/go/ssa"
)

type RegHarness struct {
	Name       string           `json:"name"`
	Target     string           `json:"target"` // v5 | legacy | cmd
	Quick      []map[string]int `json:"quick"`
	Thorough   []map[string]int `json:"thorough"`
	Witnesses  []string         `json:"witnesses"`
	MapReverse bool             `json:"map_reverse_in_thorough"`
	MapAlt     bool             `json:"map_alternate"`
	Bound      string           `json:"bound"`
}

type RegProp struct {
	Harnesses   []RegHarness `json:"harnesses"`
	Anchors     []string     `json:"anchors"` // function names (substring match on ssa function string) for coverage
	MinCover    float64      `json:"min_anchor_cover"`
	Assumptions []string     `json:"assumptions"`
	Outside     []string     `json:"outside_bound"`
	QuickTime   string       `json:"quick_time"`
	ThorTime    string       `json:"thorough_time"`
}

type KnownFinding struct {
	Status   string `json:"status"` // open | fixed
	ID       string `json:"id,omitempty"`
	Property string `json:"property"`
	Commit   string `json:"commit,omitempty"`
	What     string `json:"what"`
	Class    string `json:"class,omitempty"`
}

func loadRegistry() (map[string]RegProp, error) {
	b, err := os.ReadFile(filepath.Join(harnessDir(), "registry.json"))
	if err != nil {
		return nil, err
	}
	reg := map[string]RegProp{}
	if err := json.Unmarshal(b, &reg); err != nil {
		return nil, fmt.Errorf("registry.json: %v", err)
	}
	return reg, nil
}

func loadKnown() (map[string]KnownFinding, error) {
	b, err := os.ReadFile(filepath.Join(verifDir, "known_findings.json"))
	if err != nil {
		if os.IsNotExist(err) {
			return map[string]KnownFinding{}, nil
		}
		return nil, err
	}
	var l []KnownFinding
	if err := json.Unmarshal(b, &l); err != nil {
		return nil, err
	}
	m := map[string]KnownFinding{}
	for _, k := range l {
		if k.Status == "open" && k.ID != "" {
			m[k.ID] = k
		}
	}
	return m, nil
}

func paramLabel(p map[string]int) string {
	var ks []string
	for k := range p {
		ks = append(ks, k)
	}
	sort.Strings(ks)
	var parts []string
	for _, k := range ks {
		parts = append(parts, k+"="+strconv.Itoa(p[k]))
	}
	return strings.Join(parts, ",")
}

type evidence struct {
	PropertyID  string                 `json:"property_id"`
	Tier        string                 `json:"tier"`
	Seed        int                    `json:"seed"`
	Level       string                 `json:"level"`
	Coverage    map[string]interface{} `json:"coverage"`
	Assumptions []string               `json:"assumptions"`
	WallS       float64                `json:"wall_s"`
	Violations  int                    `json:"violations"`
}

func cmdCheck(args []string) int {
	fs := flag.NewFlagSet("check", flag.ExitOnError)
	repo := fs.String("repo", "/repo", "repository root")
	prop := fs.String("prop", "", "property id")
	tier := fs.String("tier", "quick", "quick | thorough")
	workers := fs.Int("workers", runtime.NumCPU(), "workers")
	only := fs.String("only", "", "restrict to harnesses whose name contains this")
	noEvidence := fs.Bool("no-evidence", false, "do not write the evidence file (development)")
	verbose := fs.Bool("v", false, "verbose")
	fs.Parse(args)
	if t := os.Getenv("VERIF_TIER"); t == "quick" || t == "thorough" {
		*tier = t
	}
	seed := 0
	if s := os.Getenv("VERIF_SEED"); s != "" {
		seed, _ = strconv.Atoi(s)
	}
	t0 := time.Now()
	id := *prop
	inconclusive := func(reason string) int {
		fmt.Printf("INCONCLUSIVE property=%s reason=%s\n", id, reason)
		return 2
	}
	reg, err := loadRegistry()
	if err != nil {
		return inconclusive(err.Error())
	}
	rp, ok := reg[id]
	if !ok {
		return inconclusive("no such property in registry")
	}
	known, err := loadKnown()
	if err != nil {
		return inconclusive("known_findings.json: " + err.Error())
	}
	limit := 10 * time.Minute
	ts := rp.QuickTime
	if *tier == "thorough" {
		limit = 60 * time.Minute
		ts = rp.ThorTime
	}
	if ts != "" {
		if d, err := time.ParseDuration(ts); err == nil {
			limit = d
		}
	}
	deadline := t0.Add(limit)

	// group harness instances by target
	type inst struct {
		rh     RegHarness
		params map[string]int
		label  string
	}
	byTarget := map[string][]inst{}
	var targets []string
	for _, rh := range rp.Harnesses {
		if *only != "" && !strings.Contains(rh.Name, *only) {
			continue
		}
		ps := rh.Quick
		if *tier == "thorough" && rh.Thorough != nil {
			ps = rh.Thorough
		}
		if len(ps) == 0 {
			ps = []map[string]int{{}}
		}
		tg := rh.Target
		if tg == "" {
			tg = "v5"
		}
		if _, ok := byTarget[tg]; !ok {
			targets = append(targets, tg)
		}
		for _, p := range ps {
			l := rh.Name
			if len(p) > 0 {
				l += "(" + paramLabel(p) + ")"
			}
			byTarget[tg] = append(byTarget[tg], inst{rh, p, l})
			if *tier == "thorough" && rh.MapReverse {
				byTarget[tg] = append(byTarget[tg], inst{rh, p, l + "[map-reverse]"})
			}
		}
	}
	if len(targets) == 0 {
		return inconclusive("no harness selected")
	}

	cov := map[string]interface{}{}
	var allIncomplete []string
	var violations []string
	var knownSeen = map[string]bool{}
	var unconfirmed []string
	states, transitions, validated, xmismatch := 0, 0, 0, 0
	var samples []interface{}
	perHarness := map[string]interface{}{}
	queries := QStats{}
	var solverTime time.Duration
	solverCalls := 0
	funcsEncoded := map[string]bool{}
	anchorCover := map[string]string{}
	witnessesAll := map[string]int{}
	replayDir := filepath.Join(verifDir, "evidence", "replays")
	os.MkdirAll(replayDir, 0o755)
	// remove stale replays of this property
	if old, _ := filepath.Glob(filepath.Join(replayDir, id+"-*.json")); old != nil {
		for _, f := range old {
			os.Remove(f)
		}
	}
	nReplay := 0
	nativeViol := map[string]int{}
	rng := rand.New(rand.NewSource(int64(seed)))

	for _, tg := range targets {
		ld, err := loadTarget(*repo, tg)
		if err != nil {
			if ld != nil {
				ld.cleanup()
			}
			return inconclusive("HARNESS-BUILD-ERROR " + strings.ReplaceAll(err.Error(), "\n", " | "))
		}
		cfg := RunConfig{Workers: *workers, Budget: 5_000_000, Solver: "z3-new", TimeoutMs: 20000, CapConc: 64, KeepPaths: 12, Verbose: *verbose,
			Props: map[string]bool{id: true, "ORACLE": true}, Deadline: deadline}
		cfg.FeAudit = 500
		if *tier == "thorough" {
			cfg.Cross = "cvc5"
			cfg.KeepPaths = 40
			cfg.FeAudit = 50
		}
		var fns []*ssa.Function
		insts := byTarget[tg]
		for _, in := range insts {
			fn := ld.findHarness(in.rh.Name)
			if fn == nil {
				ld.cleanup()
				return inconclusive("HARNESS-BUILD-ERROR no harness function " + in.rh.Name)
			}
			fns = append(fns, fn)
			cfg.Harnesses = append(cfg.Harnesses, HarnessSpec{Name: in.label, Fn: fn, Params: in.params, MapReverse: strings.HasSuffix(in.label, "[map-reverse]"), MapAlternate: in.rh.MapAlt, Witnesses: in.rh.Witnesses})
		}
		// anchor functions for block coverage
		cfg.CoverFns = map[*ssa.Function]bool{}
		for _, p := range ld.prog.AllPackages() {
			if !strings.HasPrefix(p.Pkg.Path(), "github.com/evanphx/json-patch") {
				continue
			}
			for fn := range ssaFuncsOf(p) {
				for _, a := range rp.Anchors {
					if strings.HasSuffix(fn.String(), a) {
						cfg.CoverFns[fn] = true
					}
				}
			}
		}
		res, err := explore(ld.Loaded, cfg)
		if err != nil {
			ld.cleanup()
			return inconclusive("RUN-ERROR " + err.Error())
		}
		if *verbose {
			printSummary(res)
		}
		for _, s := range res.Incomplete {
			allIncomplete = append(allIncomplete, tg+": "+s)
		}
		if res.TimedOut {
			allIncomplete = append(allIncomplete, tg+": time limit reached")
		}
		// native twin
		tw, err := buildTwin(ld, fns, filepath.Join(verifDir, "bin", "twin-"+id+"-"+tg))
		if err != nil {
			ld.cleanup()
			return inconclusive("HARNESS-BUILD-ERROR " + strings.ReplaceAll(err.Error(), "\n", " | "))
		}
		fnByLabel := map[string]*ssa.Function{}
		nameByLabel := map[string]string{}
		for k, in := range insts {
			fnByLabel[in.label] = fns[k]
			nameByLabel[in.label] = in.rh.Name
		}
		// cross-execution of sample passing paths
		for label, recs := range res.Records {
			rng.Shuffle(len(recs), func(a, b int) { recs[a], recs[b] = recs[b], recs[a] })
			for _, r := range recs {
				rf := &ReplayFile{Harness: nameByLabel[label], Target: tg, Pkg: fnByLabel[label].Pkg.Pkg.Path(), Vars: r.Vars, Params: r.Params}
				nr, err := tw.run(rf.Pkg, rf, "")
				if err != nil {
					allIncomplete = append(allIncomplete, "native twin run failed: "+err.Error())
					continue
				}
				validated++
				if d := compareRecord(r, nr, cfg.Props); d != "" {
					xmismatch++
					if len(unconfirmed) < 10 {
						unconfirmed = append(unconfirmed, "cross-execution mismatch in "+label+": "+d)
					}
					// The real code, run natively on this concrete input, fails an assertion of this property that the
					// encoding passed: the encoding is wrong somewhere (the run stays inconclusive), but the failure of the
					// real code is a fact. It is reported as a violation when it reproduces on a second native run.
					for _, f := range nr.Failed {
						if propOf(f) != id || nativeViol[label+"|"+f] >= 3 {
							continue
						}
						nr2, err2 := tw.run(rf.Pkg, rf, "")
						again := false
						if err2 == nil {
							for _, f2 := range nr2.Failed {
								again = again || f2 == f
							}
						}
						if !again {
							continue
						}
						nativeViol[label+"|"+f]++
						rf.Property, rf.AssertID, rf.Kind, rf.Msg, rf.Native = id, f, "native-cross-execution", "the real code fails this assertion natively on a path the encoding passed", nr
						nReplay++
						path := filepath.Join(replayDir, fmt.Sprintf("%s-%d.json", id, nReplay))
						writeJSON(path, rf)
						violations = append(violations, path)
						fmt.Printf("VIOLATION property=%s replay=%s\n", id, path)
						fmt.Printf("  harness=%s assert=%s kind=native-cross-execution (real code fails natively; the encoding passed this path)\n", label, f)
					}
				}
				if len(samples) < 6 {
					samples = append(samples, map[string]interface{}{"harness": label, "vars": r.Vars, "observations": r.Obs, "witnesses": r.Reaches})
				}
			}
		}
		// confirmation of candidates (dedupe per harness+assert id: confirm up to 3 each)
		confirm := func(c Candidate) (bool, *ReplayFile, *NativeResult) {
			rf := &ReplayFile{Harness: nameByLabel[c.Harness], Target: tg, Pkg: fnByLabel[c.Harness].Pkg.Pkg.Path(), Vars: c.Vars, Params: c.Params,
				Property: c.Property, AssertID: c.AssertID, Kind: c.Kind, Msg: c.Msg, Known: c.Known, Render: c.Render}
			tries := 1
			if strings.Contains(c.Harness, "map") || strings.Contains(c.Harness, "Repeat_Stable") {
				tries = 8 // the native iteration order of Go maps is random
			}
			var nr *NativeResult
			for k := 0; k < tries; k++ {
				var err error
				nr, err = tw.run(rf.Pkg, rf, "")
				if err != nil {
					return false, rf, nil
				}
				if nr.Panic != "" {
					return true, rf, nr
				}
				for _, f := range nr.Failed {
					if f == c.AssertID {
						return true, rf, nr
					}
				}
				for _, f := range nr.Known {
					if strings.HasPrefix(f, c.AssertID+"|") {
						return true, rf, nr
					}
				}
			}
			return false, rf, nr
		}
		seenKey := map[string]int{}
		for _, c := range res.Cands {
			if c.Property == "ORACLE" {
				// the reference evaluator disagrees with a worked example of an RFC: nothing this run says can be trusted
				allIncomplete = append(allIncomplete, "ORACLE self-check failed: "+c.AssertID)
				continue
			}
			key := c.Harness + "|" + c.AssertID
			seenKey[key]++
			if seenKey[key] > 3 {
				continue
			}
			ok, rf, nr := confirm(c)
			rf.Native = nr
			if !ok {
				unconfirmed = append(unconfirmed, fmt.Sprintf("UNCONFIRMED candidate %s %s (does not reproduce natively)", c.Harness, c.AssertID))
				nReplay++
				writeJSON(filepath.Join(replayDir, fmt.Sprintf("%s-unconfirmed-%d.json", id, nReplay)), rf)
				continue
			}
			nReplay++
			path := filepath.Join(replayDir, fmt.Sprintf("%s-%d.json", id, nReplay))
			writeJSON(path, rf)
			violations = append(violations, path)
			fmt.Printf("VIOLATION property=%s replay=%s\n", id, path)
			fmt.Printf("  harness=%s assert=%s kind=%s msg=%s\n", c.Harness, c.AssertID, c.Kind, c.Msg)
			for _, k := range sortedKeys(c.Render) {
				fmt.Printf("    %s = %q\n", k, c.Render[k])
			}
		}
		for _, c := range res.Known {
			kf, listed := known[c.Known]
			key := c.Harness + "|" + c.AssertID + "|" + c.Known
			seenKey[key]++
			if seenKey[key] > 2 {
				continue
			}
			ok, rf, nr := confirm(c)
			rf.Native = nr
			if !ok {
				unconfirmed = append(unconfirmed, fmt.Sprintf("UNCONFIRMED known-finding candidate %s %s %s", c.Harness, c.AssertID, c.Known))
				continue
			}
			if !listed || kf.Property != id && !strings.Contains(kf.Property, id) {
				// the harness refers to a finding that is not (or no longer) listed as open: a violation
				nReplay++
				path := filepath.Join(replayDir, fmt.Sprintf("%s-%d.json", id, nReplay))
				writeJSON(path, rf)
				violations = append(violations, path)
				fmt.Printf("VIOLATION property=%s replay=%s\n", id, path)
				fmt.Printf("  harness=%s assert=%s (finding %s is not listed as open)\n", c.Harness, c.AssertID, c.Known)
				continue
			}
			if !knownSeen[c.Known] {
				knownSeen[c.Known] = true
				nReplay++
				writeJSON(filepath.Join(replayDir, fmt.Sprintf("%s-known-%s.json", id, c.Known)), rf)
				fmt.Printf("KNOWN-FINDING: property=%s %s: %s\n", id, c.Known, kf.What)
			}
		}
		// aggregate
		for label, hs := range res.PerHarness {
			states += hs.Paths
			transitions += hs.Decisions
			perHarness[tg+":"+label] = hs
			for k, v := range hs.Reaches {
				witnessesAll[k] += v
			}
		}
		for _, in := range insts {
			hs := res.PerHarness[in.label]
			for _, w := range in.rh.Witnesses {
				if hs.Reaches[w] == 0 {
					// a witness may be reached by another instance of the same harness
					total := 0
					for _, in2 := range insts {
						if in2.rh.Name == in.rh.Name {
							total += res.PerHarness[in2.label].Reaches[w]
						}
					}
					if total == 0 {
						allIncomplete = append(allIncomplete, fmt.Sprintf("VACUOUS: witness %s of %s not reached on any path", w, in.rh.Name))
					}
				}
			}
		}
		queries.FeasSat += res.Q.FeasSat
		queries.FeasUnsat += res.Q.FeasUnsat
		queries.FeasUnknown += res.Q.FeasUnknown
		queries.PropSat += res.Q.PropSat
		queries.PropUnsat += res.Q.PropUnsat
		queries.PropUnknown += res.Q.PropUnknown
		queries.FrontEnd += res.Q.FrontEnd
		queries.FeAudited += res.Q.FeAudited
		queries.FeAuditDiff += res.Q.FeAuditDiff
		queries.ModelHits += res.Q.ModelHits
		solverTime += res.SolverTime
		solverCalls += res.SolverQ
		for f := range res.Called {
			if f.Pkg != nil && strings.HasPrefix(f.Pkg.Pkg.Path(), "github.com/evanphx/json-patch") && !strings.Contains(f.Pkg.Pkg.Path(), "zzverif") {
				funcsEncoded[f.String()] = true
			}
		}
		for fn := range cfg.CoverFns {
			hit := 0
			for _, b := range fn.Blocks {
				if res.Cover[b] {
					hit++
				}
			}
			anchorCover[fn.String()] = fmt.Sprintf("%d/%d blocks", hit, len(fn.Blocks))
			if rp.MinCover > 0 && len(fn.Blocks) > 0 && float64(hit)/float64(len(fn.Blocks)) < rp.MinCover && hit == 0 {
				allIncomplete = append(allIncomplete, "VACUOUS: anchor function never executed: "+fn.String())
			}
		}
		for _, s := range res.SampleSMT {
			if len(samples) < 9 {
				if len(s) > 1500 {
					s = s[:1500] + "…"
				}
				samples = append(samples, map[string]interface{}{"property_query_smt": s})
			}
		}
		if xm := res.XDiff; xm > 0 {
			allIncomplete = append(allIncomplete, fmt.Sprintf("%d solver disagreements", xm))
		}
		ld.cleanup()
		os.RemoveAll(tw.dir)
	}
	if xmismatch > 0 {
		allIncomplete = append(allIncomplete, fmt.Sprintf("%d cross-execution mismatches", xmismatch))
	}
	allIncomplete = append(allIncomplete, unconfirmed...)
	sort.Strings(allIncomplete)

	var fl []string
	for f := range funcsEncoded {
		fl = append(fl, f)
	}
	sort.Strings(fl)
	if len(samples) == 0 {
		samples = append(samples, map[string]interface{}{"note": "no passing path recorded"})
	}
	cov["states"] = states
	cov["transitions"] = transitions
	cov["traces_validated_against_impl"] = validated
	cov["samples"] = samples
	cov["rule"] = "states = completed symbolic paths (one per distinct sequence of solver-decided branch/shape decisions); transitions = decisions taken; every path covers all values of its symbolic variables that satisfy its path condition"
	cov["functions_encoded"] = map[string]interface{}{"count": len(fl), "names": fl, "anchors": anchorCover}
	cov["queries"] = map[string]interface{}{
		"feasibility": map[string]int{"sat": queries.FeasSat, "unsat": queries.FeasUnsat, "unknown": queries.FeasUnknown},
		"property":    map[string]int{"sat": queries.PropSat, "unsat": queries.PropUnsat, "unknown": queries.PropUnknown, "decided_concretely_on_path": queries.ModelHits},
	}
	cov["front_end_decisions"] = queries.FrontEnd
	cov["front_end_audit"] = map[string]interface{}{"re_asked_to_solver": queries.FeAudited, "disagreements": queries.FeAuditDiff,
		"rule": "feasibility conditions over one small variable (or over a cone of small variables whose domain product is <= 4096) are decided by exact evaluation over the variables' domains; every n-th such decision (n=500 quick, 50 thorough) is also sent to z3 and must agree; property assertions always go to the solver unless they are already constant on the path"}
	cov["solver_calls"] = solverCalls
	cov["solver_time_s"] = round1(solverTime.Seconds())
	cov["solver"] = "z3-new 5.1.0 (one persistent process per worker)"
	if *tier == "thorough" {
		cov["solver_crosscheck"] = "every property query also sent to cvc5 1.0.3"
	} else {
		cov["solver_crosscheck"] = "off (quick)"
	}
	cov["per_harness"] = perHarness
	cov["witnesses"] = witnessesAll
	var bounds []string
	for _, rh := range rp.Harnesses {
		if rh.Bound != "" {
			bounds = append(bounds, rh.Name+": "+rh.Bound)
		}
	}
	cov["bounds"] = bounds
	cov["outside_bound"] = rp.Outside
	cov["complete"] = len(allIncomplete) == 0
	cov["incomplete_reasons"] = allIncomplete
	var ks []string
	for k := range knownSeen {
		ks = append(ks, k)
	}
	sort.Strings(ks)
	cov["known_findings_seen"] = ks
	cov["exhaustive"] = false
	ev := evidence{PropertyID: id, Tier: *tier, Seed: seed, Level: "model_checking", Coverage: cov, WallS: round1(time.Since(t0).Seconds()), Violations: len(violations)}
	ev.Assumptions = append([]string{
		"engine: gosx symbolic executor over go/ssa built from the working tree on this run; ints are 64-bit bit-vectors; heap shape, lengths and pointers are concrete per path",
		"models instead of execution: reflect (type/value model over the interpreter heap), sync.Pool (LIFO, one goroutine), sync.Map/Once/Mutex/WaitGroup (sequential), fmt.Errorf/Sprintf (text opaque, %w chain kept), errors.Is/As (re-implemented over the real Unwrap/Is/As methods), internal/bytealg + strings/bytes Index/Count/IndexByte (semantic), strconv float parsing/printing (concrete only), strconv.Quote and quoteChar (message text only)",
		"map iteration: insertion order (thorough: also reversed where registered); other orders are outside the bound",
		"oracle correctness (validated separately by harness/h/*_test.go against RFC examples and the repository's expected values)",
	}, rp.Assumptions...)
	if !*noEvidence {
		os.MkdirAll(filepath.Join(verifDir, "evidence"), 0o755)
		writeJSON(filepath.Join(verifDir, "evidence", id+".json"), ev)
	}
	fmt.Printf("property=%s tier=%s paths=%d decisions=%d validated=%d violations=%d known=%d wall=%.1fs\n", id, *tier, states, transitions, validated, len(violations), len(knownSeen), time.Since(t0).Seconds())
	if len(violations) > 0 {
		return 1
	}
	if len(allIncomplete) > 0 {
		for _, s := range allIncomplete {
			if len(s) > 1200 {
				s = s[:1200]
			}
			fmt.Printf("INCONCLUSIVE property=%s reason=%s\n", id, strings.ReplaceAll(s, "\n", " | "))
		}
		return 2
	}
	return 0
}

func ssaFuncsOf(p *ssa.Package) map[*ssa.Function]bool {
	out := map[*ssa.Function]bool{}
	var add func(f *ssa.Function)
	add = func(f *ssa.Function) {
		if f == nil || out[f] {
			return
		}
		out[f] = true
		for _, a := range f.AnonFuncs {
			add(a)
		}
	}
	for _, m := range p.Members {
		switch m := m.(type) {
		case *ssa.Function:
			add(m)
		case *ssa.Type:
			for _, t := range []interface{}{m.Type()} {
				_ = t
			}
			ms := p.Prog.MethodSets.MethodSet(m.Type())
			for k := 0; k < ms.Len(); k++ {
				add(p.Prog.MethodValue(ms.At(k)))
			}
			pms := p.Prog.MethodSets.MethodSet(typesPointer(m))
			for k := 0; k < pms.Len(); k++ {
				add(p.Prog.MethodValue(pms.At(k)))
			}
		}
	}
	return out
}

func round1(f float64) float64 { return float64(int(f*10+0.5)) / 10 }

func sortedKeys(m map[string]string) []string {
	var ks []string
	for k := range m {
		ks = append(ks, k)
	}
	sort.Strings(ks)
	return ks
}

func writeJSON(path string, v interface{}) {
	b, err := json.MarshalIndent(v, "", " ")
	if err != nil {
		fmt.Fprintln(os.Stderr, "writeJSON:", err)
		return
	}
	os.WriteFile(path, append(b, '\n'), 0o644)
}

// cmdReplay re-runs a replay file against the natively compiled library.
func cmdReplay(args []string) int {
	fs := flag.NewFlagSet("replay", flag.ExitOnError)
	repo := fs.String("repo", "/repo", "repository root")
	fs.Parse(args)
	if fs.NArg() != 1 {
		fmt.Fprintln(os.Stderr, "usage: gosx replay [-repo /repo] <replay.json>")
		return 2
	}
	b, err := os.ReadFile(fs.Arg(0))
	if err != nil {
		fmt.Fprintln(os.Stderr, err)
		return 2
	}
	var rf ReplayFile
	if err := json.Unmarshal(b, &rf); err != nil {
		fmt.Fprintln(os.Stderr, err)
		return 2
	}
	ld, err := loadTarget(*repo, rf.Target)
	if err != nil {
		fmt.Fprintln(os.Stderr, "LOAD-ERROR:", err)
		return 2
	}
	defer ld.cleanup()
	fn := ld.findHarness(rf.Harness)
	if fn == nil {
		fmt.Fprintln(os.Stderr, "no harness", rf.Harness)
		return 2
	}
	dir, _ := os.MkdirTemp("", "gosx-replay-")
	defer os.RemoveAll(dir)
	tw, err := buildTwin(ld, []*ssa.Function{fn}, dir)
	if err != nil {
		fmt.Fprintln(os.Stderr, err)
		return 2
	}
	rf.Native = nil
	nr, err := tw.run(fn.Pkg.Pkg.Path(), &rf, "")
	if err != nil {
		fmt.Fprintln(os.Stderr, err)
		return 2
	}
	out, _ := json.MarshalIndent(nr, "", " ")
	fmt.Println(string(out))
	for _, k := range sortedKeys(rf.Render) {
		fmt.Printf("  %s = %q\n", k, rf.Render[k])
	}
	if nr.Panic != "" || len(nr.Failed) > 0 {
		fmt.Println("REPRODUCED: the native run fails")
		return 1
	}
	if len(nr.Known) > 0 {
		fmt.Println("REPRODUCED (known finding): " + strings.Join(nr.Known, ","))
		return 1
	}
	fmt.Println("not reproduced: the native run passes")
	return 0
}

func typesPointer(m *ssa.Type) types.Type { return types.NewPointer(m.Type()) }
