package main

import (
	"fmt"
	"golang.org/x/tools/go/packages"
	"golang.org/x/tools/go/ssa"
	"golang.org/x/tools/go/ssa/ssautil"
)

func main() {
	_ = packages.Load
	_ = ssa.BuilderMode(0)
	_ = ssautil.AllPackages
	fmt.Println("ok")
}
