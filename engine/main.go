package main

import (
	"flag"
	"fmt"
	"os"
	"path/filepath"
	"runtime"
	"runtime/pprof"
	"sort"
	"strconv"
	"strings"
	"time"

	"golang.org/x/tools/go/ssa"
)

var verifDir = "/verif"

func main() {
	if len(os.Args) < 2 {
		fmt.Fprintln(os.Stderr, "usage: gosx run|check|replay|selftest …")
		os.Exit(2)
	}
	if d := os.Getenv("VERIF_DIR"); d != "" {
		verifDir = d
	} else if exe, err := os.Executable(); err == nil {
		// bin/gosx lives in <verif>/bin
		d := filepath.Dir(filepath.Dir(exe))
		if _, err := os.Stat(filepath.Join(d, "harness")); err == nil {
			verifDir = d
		}
	}
	switch os.Args[1] {
	case "run":
		os.Exit(cmdRun(os.Args[2:]))
	case "check":
		os.Exit(cmdCheck(os.Args[2:]))
	case "replay":
		os.Exit(cmdReplay(os.Args[2:]))
	default:
		fmt.Fprintln(os.Stderr, "unknown command", os.Args[1])
		os.Exit(2)
	}
}

type paramFlags map[string]int

func (p paramFlags) String() string { return fmt.Sprint(map[string]int(p)) }
func (p paramFlags) Set(s string) error {
	k, v, ok := strings.Cut(s, "=")
	if !ok {
		return fmt.Errorf("want k=v")
	}
	n, err := strconv.Atoi(v)
	if err != nil {
		return err
	}
	p[k] = n
	return nil
}

// cmdRun is the development entry: explore named harnesses and print a summary.
func cmdRun(args []string) int {
	fs := flag.NewFlagSet("run", flag.ExitOnError)
	repo := fs.String("repo", "/repo", "repository root")
	target := fs.String("target", "v5", "v5 | legacy | cmd")
	hs := fs.String("harness", "", "comma-separated harness function names")
	props := fs.String("props", "", "comma-separated active property ids (default: all)")
	workers := fs.Int("workers", runtime.NumCPU(), "workers")
	maxPaths := fs.Int("max-paths", 0, "path cap")
	budget := fs.Int64("budget", 5_000_000, "instruction budget per path")
	timeout := fs.Duration("time", 0, "wall-clock limit")
	solver := fs.String("solver", "z3-new", "z3-new | z3 | cvc5")
	cross := fs.String("cross", "", "cross-check solver for property queries")
	verbose := fs.Bool("v", false, "verbose")
	reverse := fs.Bool("map-reverse", false, "iterate maps in reverse insertion order")
	showCands := fs.Int("show", 5, "candidates to print")
	params := paramFlags{}
	fs.Var(params, "p", "harness parameter k=v (repeatable)")
	cpuprof := fs.String("cpuprofile", "", "write a CPU profile")
	hist := fs.String("hist", "", "histogram of paths by these Choose names (a+b)")
	fs.Parse(args)
	if *cpuprof != "" {
		f, _ := os.Create(*cpuprof)
		pprof.StartCPUProfile(f)
		defer pprof.StopCPUProfile()
	}

	ld, err := loadTarget(*repo, *target)
	if err != nil {
		fmt.Fprintln(os.Stderr, "LOAD-ERROR:", err)
		return 2
	}
	defer ld.cleanup()
	cfg := RunConfig{Workers: *workers, Budget: *budget, MaxPaths: *maxPaths, Solver: *solver, Cross: *cross, TimeoutMs: 20000, CapConc: 64, KeepPaths: 5, Verbose: *verbose}
	cfg.Hist = *hist
	if *timeout > 0 {
		cfg.Deadline = time.Now().Add(*timeout)
	}
	cfg.Props = allProps()
	if *props != "" {
		cfg.Props = map[string]bool{}
		for _, p := range strings.Split(*props, ",") {
			cfg.Props[p] = true
		}
	}
	for _, n := range strings.Split(*hs, ",") {
		fn := ld.findHarness(n)
		if fn == nil {
			fmt.Fprintln(os.Stderr, "no harness function", n)
			return 2
		}
		cfg.Harnesses = append(cfg.Harnesses, HarnessSpec{Name: n, Fn: fn, Params: params, MapReverse: *reverse})
	}
	res, err := explore(ld.Loaded, cfg)
	if err != nil {
		fmt.Fprintln(os.Stderr, "RUN-ERROR:", err)
		return 2
	}
	printSummary(res)
	for n, recs := range res.Records {
		for k, r := range recs {
			if k >= 2 {
				break
			}
			fmt.Printf("RECORD %s vars=%v reaches=%v\n", n, r.Vars, r.Reaches)
			for on, ov := range r.Obs {
				fmt.Printf("    obs %s = %q\n", on, ov)
			}
		}
	}
	for k, c := range res.Cands {
		if k >= *showCands {
			break
		}
		fmt.Printf("CANDIDATE %s %s %s: %s\n", c.Harness, c.Kind, c.AssertID, c.Msg)
		var keys []string
		for n := range c.Render {
			keys = append(keys, n)
		}
		sort.Strings(keys)
		for _, n := range keys {
			fmt.Printf("    %s = %q\n", n, c.Render[n])
		}
		fmt.Printf("    vars = %v\n", c.Vars)
	}
	return 0
}

func allProps() map[string]bool {
	m := map[string]bool{}
	for k := 1; k <= 20; k++ {
		m[fmt.Sprintf("C%02d", k)] = true
	}
	return m
}

func printSummary(res *RunResult) {
	var names []string
	for n := range res.PerHarness {
		names = append(names, n)
	}
	sort.Strings(names)
	for _, n := range names {
		hs := res.PerHarness[n]
		fmt.Printf("%s: paths=%d status=%v decisions=%d steps=%d max_steps=%d\n", n, hs.Paths, hs.Status, hs.Decisions, hs.Steps, hs.MaxSteps)
		var rk []string
		for k := range hs.Reaches {
			rk = append(rk, k)
		}
		sort.Strings(rk)
		for _, k := range rk {
			fmt.Printf("    reach %-40s %d\n", k, hs.Reaches[k])
		}
	}
	fmt.Printf("queries: feas sat=%d unsat=%d unknown=%d | prop sat=%d unsat=%d unknown=%d | front-end=%d | solver calls=%d time=%.1fs errors=%d\n",
		res.Q.FeasSat, res.Q.FeasUnsat, res.Q.FeasUnknown, res.Q.PropSat, res.Q.PropUnsat, res.Q.PropUnknown, res.Q.FrontEnd, res.SolverQ, res.SolverTime.Seconds(), res.SolverErrs)
	fmt.Printf("candidates=%d known=%d wall=%.1fs\n", len(res.Cands), len(res.Known), res.Wall.Seconds())
	if res.ForkSites != nil {
		type kv struct {
			k string
			v int
		}
		var l []kv
		for k, v := range res.ForkSites {
			l = append(l, kv{k, v})
		}
		sort.Slice(l, func(a, b int) bool { return l[a].v > l[b].v })
		for k, e := range l {
			if k >= 25 {
				break
			}
			fmt.Printf("    forks %-8d %s\n", e.v, e.k)
		}
	}
	for _, s := range res.Incomplete {
		if len(s) > 2000 {
			s = s[:2000]
		}
		fmt.Println("INCOMPLETE:", s)
	}
}

type Target struct {
	*Loaded
	tmp    string
	kind   string
	pkgMap map[string]*ssa.Package
}

func (t *Target) cleanup() {
	if t.tmp != "" {
		os.RemoveAll(t.tmp)
	}
}

// findHarness looks a harness function up in the harness package, then in the in-package harness files.
func (t *Target) findHarness(name string) *ssa.Function {
	if f := t.harness.Func(name); f != nil {
		return f
	}
	for _, p := range t.prog.AllPackages() {
		if strings.HasPrefix(p.Pkg.Path(), "github.com/evanphx/json-patch") {
			if f := p.Func(name); f != nil {
				return f
			}
		}
	}
	return nil
}
