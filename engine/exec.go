package main

// Per-worker path executor: decision log, path condition, model cache,
// single-variable front end, solver interaction.

import (
	"os"
	"fmt"
	"go/token"
	"sort"
	"strconv"
	"strings"
	"time"
)

type Decision struct {
	K    byte // 'b' branch, 'c' choose, 'v' concretised value
	V    uint64
	Excl []uint64 // 'v' at the frontier of a work item: sibling values already taken
}

type WorkItem struct {
	Harness int
	Prefix  []Decision
	Model   Model
}

type Candidate struct {
	Harness  string            `json:"harness"`
	Property string            `json:"property"`
	AssertID string            `json:"assert_id"`
	Kind     string            `json:"kind"` // assert | panic
	Msg      string            `json:"msg"`
	Known    string            `json:"known,omitempty"`
	Vars     map[string]uint64 `json:"vars"`
	Render   map[string]string `json:"render,omitempty"`
	Params   map[string]int    `json:"params,omitempty"`
}

type Obs struct {
	Name string
	Data []Value // bytes (int64 or *Term)
}

type QStats struct {
	FeasSat, FeasUnsat, FeasUnknown int
	PropSat, PropUnsat, PropUnknown int
	FrontEnd                        int
	FeAudited, FeAuditDiff          int
	ModelHits                       int
}

type Exec struct {
	tt     *TermTable
	sol    *Solver
	sol2   *Solver // optional cross-check solver for property queries
	in     *Interp
	budget int64
	steps  int64

	prefix   []Decision
	pos      int
	log      []Decision
	model    Model
	pend     []*Term
	pcAll    []*Term
	pcVars   [][]string
	pcSingle []bool
	lastRel  []*Term
	dom      map[string]*[4]uint64
	entang   map[string]bool
	vars     map[string]*Term
	varSeq   []string

	harness   string
	harnessIx int
	props     map[string]bool // active property ids (prefix before '/')
	params    map[string]int

	items       []WorkItem
	cands       []Candidate
	reaches     map[string]int
	obs         []Obs
	render      map[string]string
	chosen      map[string]uint64
	incompl     []string
	assumes     map[string]bool
	st          QStats
	readOnly    map[*Value]string
	capConc     int
	feAudit     int
	feCount     int
	lastProp    string
	known       []Candidate
	xdiff       int
	lastPropSMT string
	ttCache     map[string][4]uint64
	forkSites   map[token.Pos]int
}

func (e *Exec) resetPath(it WorkItem) {
	e.tt.Reset()
	e.sol.ResetPath()
	if e.sol2 != nil {
		e.sol2.ResetPath()
	}
	e.prefix = it.Prefix
	e.pos = 0
	e.log = e.log[:0]
	e.model = Model{}
	for k, v := range it.Model {
		e.model[k] = v
	}
	e.pend = e.pend[:0]
	e.pcAll = e.pcAll[:0]
	e.pcVars = e.pcVars[:0]
	e.pcSingle = e.pcSingle[:0]
	e.dom = map[string]*[4]uint64{}
	e.entang = map[string]bool{}
	e.vars = map[string]*Term{}
	e.varSeq = e.varSeq[:0]
	e.items = nil
	e.cands = nil
	e.known = nil
	e.reaches = map[string]int{}
	e.obs = nil
	e.render = map[string]string{}
	e.chosen = map[string]uint64{}
	e.steps = 0
	e.readOnly = map[*Value]string{}
	e.lastProp = ""
}

func (e *Exec) incomplete(why string) {
	e.incompl = append(e.incompl, why)
}

// ---- symbolic inputs

func (e *Exec) newVar(name string, w uint8) *Term {
	if _, dup := e.vars[name]; dup {
		base := name
		for n := 2; ; n++ {
			name = fmt.Sprintf("%s#%d", base, n)
			if _, dup := e.vars[name]; !dup {
				break
			}
		}
	}
	v := e.tt.Var(name, w)
	e.vars[name] = v
	e.varSeq = append(e.varSeq, name)
	return v
}

// ---- front end over single small variables

func smallVar(t *Term) bool { return t.nv == 1 && t.v0.W <= 8 }

func domSize(w uint8) int {
	if w == 0 {
		return 2
	}
	return 1 << w
}

func (e *Exec) domOf(v *Term) *[4]uint64 {
	d := e.dom[v.Name]
	if d == nil {
		d = &[4]uint64{}
		n := domSize(v.W)
		for x := 0; x < n; x++ {
			d[x>>6] |= 1 << (uint(x) & 63)
		}
		e.dom[v.Name] = d
	}
	return d
}

// termKey is a structural key of t that is stable across paths (term ids are not).
func termKey(t *Term, sb *strings.Builder, depth int) bool {
	if depth > 40 {
		return false
	}
	sb.WriteByte(byte('A' + t.Op))
	sb.WriteByte(byte('0' + t.W%64))
	switch t.Op {
	case OpConst:
		sb.WriteString(strconv.FormatUint(t.Val, 36))
	case OpVar:
		sb.WriteByte('$')
	case OpLut:
		sb.WriteString(t.Name)
	}
	sb.WriteByte('(')
	for _, a := range t.Args {
		if !termKey(a, sb, depth+1) {
			return false
		}
	}
	sb.WriteByte(')')
	return sb.Len() < 4000
}

// truthSet evaluates c (single small var) on the variable's current domain.
// The truth table over the full domain depends only on the term's structure and is cached per worker.
func (e *Exec) truthSet(c *Term) (tset [4]uint64, any bool) {
	v := c.v0
	d := e.domOf(v)
	n := domSize(v.W)
	var sb strings.Builder
	var full [4]uint64
	key := ""
	if termKey(c, &sb, 0) {
		key = sb.String()
	}
	cached := false
	if key != "" {
		full, cached = e.ttCache[key]
	}
	if !cached {
		m := Model{}
		for x := 0; x < n; x++ {
			m[v.Name] = uint64(x)
			if Eval(c, m) == 1 {
				full[x>>6] |= 1 << (uint(x) & 63)
			}
		}
		if key != "" {
			if e.ttCache == nil || len(e.ttCache) > 200000 {
				e.ttCache = map[string][4]uint64{}
			}
			e.ttCache[key] = full
		}
	}
	for k := range tset {
		tset[k] = full[k] & d[k]
		if tset[k] != 0 {
			any = true
		}
	}
	return
}

func pickFrom(set [4]uint64, prefer uint64) uint64 {
	if prefer < 256 && set[prefer>>6]&(1<<(prefer&63)) != 0 {
		return prefer
	}
	// prefer printable values for readability
	for _, x := range []uint64{'a', '0', '1', ' ', '"'} {
		if set[x>>6]&(1<<(x&63)) != 0 {
			return x
		}
	}
	for x := uint64(0x20); x < 0x7f; x++ {
		if set[x>>6]&(1<<(x&63)) != 0 {
			return x
		}
	}
	for x := uint64(0); x < 256; x++ {
		if set[x>>6]&(1<<(x&63)) != 0 {
			return x
		}
	}
	return 0
}

func (e *Exec) entangle(c *Term) {
	if c.nv == 0 {
		return
	}
	if c.nv == 1 {
		e.entang[c.v0.Name] = true
		return
	}
	set := map[string]*Term{}
	CollectVars(c, set, map[*Term]bool{})
	for n := range set {
		e.entang[n] = true
	}
}

// addPC records a constraint that the current model already satisfies.
func (e *Exec) addPC(c *Term) {
	if c.IsConst() {
		if c.Val == 0 {
			panic(abortPath{reason: "infeasible", detail: "false path condition"})
		}
		return
	}
	e.pcAll = append(e.pcAll, c)
	e.pcVars = append(e.pcVars, varNames(c))
	e.pcSingle = append(e.pcSingle, c.nv == 1)
	if smallVar(c) {
		// the domain is the conjunction of all single-variable constraints on the variable
		// (exact while the variable is independent, an over-approximation once it is entangled)
		ts, _ := e.truthSet(c)
		*e.domOf(c.v0) = ts
		return
	}
	e.entangle(c)
}

func varNames(c *Term) []string {
	if c.nv == 0 {
		return nil
	}
	if c.nv == 1 {
		return []string{c.v0.Name}
	}
	set := map[string]*Term{}
	CollectVars(c, set, map[*Term]bool{})
	out := make([]string, 0, len(set))
	for n := range set {
		out = append(out, n)
	}
	return out
}

// relevant returns the constraints in the cone of influence of extra: the
// multi-variable path-condition constraints that share variables with it,
// transitively, plus — for every small variable in the cone — its current
// domain (the conjunction of all single-variable constraints on it) as one
// compact constraint. The constraints left out are satisfiable on their own
// (the cached model satisfies the whole path condition) and mention none of
// the cone's variables, so dropping them changes neither sat nor unsat.
func (e *Exec) relevant(extra *Term) ([]*Term, map[string]*Term) {
	vars := map[string]bool{}
	for _, n := range varNames(extra) {
		vars[n] = true
	}
	used := make([]bool, len(e.pcAll))
	var out []*Term
	for changed := true; changed; {
		changed = false
		for k, c := range e.pcAll {
			if used[k] || e.pcSingle[k] {
				continue
			}
			hit := false
			for _, n := range e.pcVars[k] {
				if vars[n] {
					hit = true
					break
				}
			}
			if !hit {
				continue
			}
			used[k] = true
			out = append(out, c)
			for _, n := range e.pcVars[k] {
				if !vars[n] {
					vars[n] = true
					changed = true
				}
			}
		}
	}
	want := map[string]*Term{}
	for n := range vars {
		v := e.vars[n]
		if v == nil {
			continue
		}
		want[n] = v
		if v.Op == OpVar && v.W <= 8 {
			if d := e.dom[n]; d != nil {
				if dc := e.domTerm(v, d); dc != nil {
					out = append(out, dc)
				}
			}
		}
	}
	// single-variable constraints on wide variables are kept as they are
	for k, c := range e.pcAll {
		if e.pcSingle[k] && !used[k] && c.v0.W > 8 && vars[c.v0.Name] {
			out = append(out, c)
		}
	}
	return out, want
}

// domTerm renders a small variable's domain as a disjunction of intervals (nil when unconstrained).
func (e *Exec) domTerm(v *Term, d *[4]uint64) *Term {
	tt := e.tt
	n := domSize(v.W)
	full := true
	for x := 0; x < n; x++ {
		if d[x>>6]&(1<<(uint(x)&63)) == 0 {
			full = false
			break
		}
	}
	if full {
		return nil
	}
	if v.W == 0 {
		if d[0]&1 != 0 {
			return tt.Not(v)
		}
		return v
	}
	acc := tt.False
	for x := 0; x < n; {
		if d[x>>6]&(1<<(uint(x)&63)) == 0 {
			x++
			continue
		}
		y := x
		for y+1 < n && d[(y+1)>>6]&(1<<(uint(y+1)&63)) != 0 {
			y++
		}
		var iv *Term
		if x == y {
			iv = tt.Eq(v, tt.Const(v.W, uint64(x)))
		} else {
			iv = tt.And(tt.Bin(OpULe, tt.Const(v.W, uint64(x)), v), tt.Bin(OpULe, v, tt.Const(v.W, uint64(y))))
		}
		acc = tt.Or(acc, iv)
		x = y + 1
	}
	return acc
}

func (e *Exec) flush() {}

// auditFrontEnd re-asks every feAudit-th front-end decision to the SMT solver; a disagreement makes the run
// incomplete (exit 2). The front end is an exact finite-domain evaluation, the audit shows it agrees with z3.
func (e *Exec) auditFrontEnd(extra *Term, got SatResult) {
	if e.feAudit <= 0 {
		return
	}
	e.feCount++
	if e.feCount%e.feAudit != 0 {
		return
	}
	rel, want := e.relevant(extra)
	res, _ := e.sol.CheckWith(rel, extra, want)
	e.st.FeAudited++
	if res != Unknown && res != got {
		e.st.FeAuditDiff++
		e.incomplete("front-end decision disagrees with the solver: " + SMT(extra))
	}
}

// check decides satisfiability of PC ∧ extra; on Sat the returned model is complete
// (current model overridden by the solver's values).
func (e *Exec) check(extra *Term, prop bool) (SatResult, Model) {
	if extra.IsConst() {
		if extra.Val == 1 {
			return Sat, e.copyModel()
		}
		return Unsat, nil
	}
	if !prop && smallVar(extra) && !e.entang[extra.v0.Name] {
		e.st.FrontEnd++
		ts, any := e.truthSet(extra)
		if !any {
			e.auditFrontEnd(extra, Unsat)
			return Unsat, nil
		}
		e.auditFrontEnd(extra, Sat)
		m := e.copyModel()
		m[extra.v0.Name] = pickFrom(ts, 256)
		return Sat, m
	}
	if smallVar(extra) && !prop {
		// domain pre-check (feasibility queries only: property queries always go to the solver): the domain over-approximates the feasible values of an entangled variable
		if _, any := e.truthSet(extra); !any {
			e.st.FrontEnd++
			e.auditFrontEnd(extra, Unsat)
			return Unsat, nil
		}
	}
	rel, want := e.relevant(extra)
	e.lastRel = rel
	if !prop {
		if r, m, ok := e.enumCheck(rel, extra, want); ok {
			e.st.FrontEnd++
			e.auditFrontEnd(extra, r)
			return r, m
		}
	}
	res, sm := e.sol.CheckWith(rel, extra, want)
	if res == Sat {
		m := e.copyModel()
		for k, v := range sm {
			m[k] = v
		}
		// independent small variables keep a value from their domain
		hasArr := false
		for _, v := range want {
			if v.Op == OpArrVar {
				hasArr = true // array contents are not part of the scalar model; the check below cannot be made
			}
		}
		if !hasArr && Eval(extra, m) != 1 {
			// the solver's model did not mention a variable we assumed 0 for: trust solver values only
			e.incomplete("model evaluation mismatch")
		}
		return Sat, m
	}
	return res, nil
}

func (e *Exec) copyModel() Model {
	m := make(Model, len(e.model))
	for k, v := range e.model {
		m[k] = v
	}
	return m
}

func (e *Exec) emit(d Decision, m Model) {
	p := make([]Decision, len(e.log)+1)
	copy(p, e.log)
	p[len(e.log)] = d
	e.items = append(e.items, WorkItem{Harness: e.harnessIx, Prefix: p, Model: m})
}

// decide forks on a Bool term.
func (e *Exec) decide(c *Term) bool {
	if c.IsConst() {
		return c.Val == 1
	}
	tt := e.tt
	if e.pos < len(e.prefix) {
		d := e.prefix[e.pos]
		e.pos++
		if d.K != 'b' {
			panic(abortPath{reason: "engine", detail: fmt.Sprintf("replay divergence: expected branch, log has %c", d.K)})
		}
		take := d.V == 1
		e.log = append(e.log, Decision{K: 'b', V: d.V})
		if take {
			e.addPC(c)
		} else {
			e.addPC(tt.Not(c))
		}
		return take
	}
	mv := Eval(c, e.model) == 1
	alt := c
	if mv {
		alt = tt.Not(c)
	}
	res, m2 := e.check(alt, false)
	switch res {
	case Sat:
		e.st.FeasSat++
		if e.forkSites != nil {
			e.forkSites[e.in.lastPos]++
		}
		e.emit(Decision{K: 'b', V: b2u(!mv)}, m2)
	case Unsat:
		e.st.FeasUnsat++
	default:
		e.st.FeasUnknown++
		e.incomplete("solver unknown on a feasibility query")
	}
	e.log = append(e.log, Decision{K: 'b', V: b2u(mv)})
	if mv {
		e.addPC(c)
	} else {
		e.addPC(tt.Not(c))
	}
	return mv
}

// concretize forks over the feasible values of t.
func (e *Exec) concretize(t *Term, what string) uint64 {
	if t.IsConst() {
		return t.Val
	}
	tt := e.tt
	var d Decision
	frontier := false
	if e.pos < len(e.prefix) {
		d = e.prefix[e.pos]
		e.pos++
		if d.K != 'v' {
			panic(abortPath{reason: "engine", detail: fmt.Sprintf("replay divergence: expected value, log has %c", d.K)})
		}
		frontier = e.pos == len(e.prefix)
	} else {
		d = Decision{K: 'v', V: Eval(t, e.model)}
		frontier = true
	}
	if frontier {
		excl := append(append([]uint64(nil), d.Excl...), d.V)
		if len(excl) > e.capConc {
			e.incomplete("concretisation cap reached: " + what)
		} else {
			cond := tt.True
			for _, x := range excl {
				cond = tt.And(cond, tt.Not(tt.Eq(t, tt.Const(t.W, x))))
			}
			res, m2 := e.check(cond, false)
			switch res {
			case Sat:
				e.st.FeasSat++
				e.emit(Decision{K: 'v', V: Eval(t, m2), Excl: excl}, m2)
			case Unsat:
				e.st.FeasUnsat++
			default:
				e.st.FeasUnknown++
				e.incomplete("solver unknown on a concretisation query")
			}
		}
	}
	e.log = append(e.log, Decision{K: 'v', V: d.V})
	e.addPC(tt.Eq(t, tt.Const(t.W, d.V)))
	return d.V
}

func (e *Exec) choose(name string, n int) int {
	if n <= 0 {
		panic(abortPath{reason: "infeasible", detail: "Choose with n<=0"})
	}
	var d Decision
	if e.pos < len(e.prefix) {
		d = e.prefix[e.pos]
		e.pos++
		if d.K != 'c' {
			panic(abortPath{reason: "engine", detail: fmt.Sprintf("replay divergence: expected choose, log has %c", d.K)})
		}
	} else {
		d = Decision{K: 'c', V: 0}
		for k := n - 1; k >= 1; k-- {
			e.emit(Decision{K: 'c', V: uint64(k)}, e.copyModel())
		}
	}
	e.log = append(e.log, d)
	if _, dup := e.chosen[name]; dup {
		base := name
		for k := 2; ; k++ {
			name = fmt.Sprintf("%s#%d", base, k)
			if _, dup := e.chosen[name]; !dup {
				break
			}
		}
	}
	e.chosen[name] = d.V
	return int(d.V)
}

func (e *Exec) assume(c Value) {
	switch c := c.(type) {
	case bool:
		if !c {
			panic(abortPath{reason: "infeasible", detail: "assume(false)"})
		}
	case *Term:
		if Eval(c, e.model) == 1 {
			e.addPC(c)
			return
		}
		if e.pos < len(e.prefix) {
			panic(abortPath{reason: "engine", detail: "assume not satisfied by the work item's model during replay"})
		}
		res, m2 := e.check(c, false)
		switch res {
		case Sat:
			e.model = m2
			e.addPC(c)
		case Unsat:
			panic(abortPath{reason: "infeasible", detail: "assume"})
		default:
			e.incomplete("solver unknown on an assume")
			panic(abortPath{reason: "infeasible", detail: "assume unknown"})
		}
	}
}

func propOf(id string) string {
	for k := 0; k < len(id); k++ {
		if id[k] == '/' {
			return id[:k]
		}
	}
	return id
}

func (e *Exec) candidate(kind, id, msg, known string, m Model) {
	c := Candidate{Harness: e.harness, Property: propOf(id), AssertID: id, Kind: kind, Msg: msg, Known: known,
		Vars: map[string]uint64{}, Render: map[string]string{}, Params: e.params}
	for _, n := range e.varSeq {
		v := e.vars[n]
		c.Vars[n] = mask(v.W, m[n])
	}
	for k, v := range e.chosen {
		c.Vars["choose:"+k] = v
	}
	for k, v := range e.render {
		c.Render[k] = v
	}
	// re-render observations under this model
	for _, o := range e.obs {
		c.Render["obs:"+o.Name] = renderBytes(o.Data, m)
	}
	if known != "" {
		e.known = append(e.known, c)
	} else {
		e.cands = append(e.cands, c)
	}
}

func renderBytes(data []Value, m Model) string {
	b := make([]byte, len(data))
	for k, x := range data {
		switch x := x.(type) {
		case int64:
			b[k] = byte(x)
		case *Term:
			b[k] = byte(Eval(x, m))
		}
	}
	return string(b)
}

// assertProp checks a property assertion; known != "" marks a listed known finding.
func (e *Exec) assertProp(c Value, id, known string) {
	if !e.props[propOf(id)] {
		return
	}
	e.lastProp = id
	switch c := c.(type) {
	case bool:
		if !c {
			e.st.PropSat++
			e.candidate("assert", id, "assertion is false on this path", known, e.model)
			panic(abortPath{reason: "violation", detail: id})
		}
		e.st.ModelHits++
	case *Term:
		neg := e.tt.Not(c)
		e.flush()
		t0 := time.Now()
		res, m2 := e.check(neg, true)
		_ = t0
		e.lastPropSMT = e.sol.lastSMT
		if e.sol2 != nil && res != Unknown {
			r2, _ := e.sol2.CheckWith(e.lastRel, neg, nil)
			if r2 != res {
				e.xdiff++
				e.incomplete(fmt.Sprintf("solver disagreement on %s: %v vs %v", id, res, r2))
			}
		}
		switch res {
		case Sat:
			e.st.PropSat++
			e.candidate("assert", id, "solver found a counterexample", known, m2)
		case Unsat:
			e.st.PropUnsat++
		default:
			e.st.PropUnknown++
			e.incomplete("solver unknown on property query " + id)
		}
		// continue under the assumption that the assertion held
		if Eval(c, e.model) == 1 {
			e.addPC(c)
		} else {
			r, m3 := e.check(c, false)
			if r != Sat {
				panic(abortPath{reason: "violation", detail: id + " (fails on every input of this path)"})
			}
			e.model = m3
			e.addPC(c)
		}
	}
}

func (e *Exec) onStore(p *Value) {
	if len(e.readOnly) == 0 {
		return
	}
	if tag, ok := e.readOnly[p]; ok {
		e.candidate("assert", "C09/readonly", "write into read-only input "+tag, "", e.model)
	}
}

func (e *Exec) sortedVarNames() []string {
	n := append([]string(nil), e.varSeq...)
	sort.Strings(n)
	return n
}


// enumCheck decides a feasibility query exactly by enumeration when every
// variable in the cone of influence is a small (<= 8 bit) variable and the
// product of their current domains is at most enumCap assignments. The domains
// over-approximate each variable's feasible values and rel holds every
// multi-variable constraint of the cone, so evaluating rel and extra on the
// whole product is a complete decision procedure for this query. Property
// queries never come here (they always go to the solver).
var enumCap = func() int {
	if n, err := strconv.Atoi(os.Getenv("GOSX_ENUMCAP")); err == nil && n > 0 {
		return n
	}
	return 4096
}()

func (e *Exec) enumCheck(rel []*Term, extra *Term, want map[string]*Term) (SatResult, Model, bool) {
	type ev struct {
		name string
		vals []uint64
	}
	var vs []ev
	prod := 1
	for n, v := range want {
		if v.Op != OpVar || v.W > 8 {
			return Unknown, nil, false
		}
		size := domSize(v.W)
		d := e.dom[n]
		var vals []uint64
		for x := 0; x < size; x++ {
			if d == nil || d[x>>6]&(1<<(uint(x)&63)) != 0 {
				vals = append(vals, uint64(x))
			}
		}
		if len(vals) == 0 {
			return Unsat, nil, true
		}
		prod *= len(vals)
		if prod > enumCap {
			return Unknown, nil, false
		}
		vs = append(vs, ev{n, vals})
	}
	// every variable of rel and extra must be in want
	for _, c := range rel {
		for _, n := range varNames(c) {
			if want[n] == nil {
				return Unknown, nil, false
			}
		}
	}
	for _, n := range varNames(extra) {
		if want[n] == nil {
			return Unknown, nil, false
		}
	}
	sort.Slice(vs, func(a, b int) bool { return vs[a].name < vs[b].name })
	// multi-variable constraints only (domains are enumerated)
	var cons []*Term
	for _, c := range rel {
		if c.nv != 1 {
			cons = append(cons, c)
		}
	}
	m := make(Model, len(vs))
	idx := make([]int, len(vs))
	for k, v := range vs {
		// start from the current model's value when it is in the domain (keeps models stable)
		m[v.name] = v.vals[0]
		_ = k
	}
	for {
		ok := Eval(extra, m) == 1
		if ok {
			for _, c := range cons {
				if Eval(c, m) != 1 {
					ok = false
					break
				}
			}
		}
		if ok {
			out := e.copyModel()
			for k, v := range m {
				out[k] = v
			}
			return Sat, out, true
		}
		k := 0
		for ; k < len(vs); k++ {
			idx[k]++
			if idx[k] < len(vs[k].vals) {
				m[vs[k].name] = vs[k].vals[idx[k]]
				break
			}
			idx[k] = 0
			m[vs[k].name] = vs[k].vals[0]
		}
		if k == len(vs) {
			return Unsat, nil, true
		}
	}
}
