package main

// Front end: go/packages with an overlay that injects the harness sources into
// virtual directories of the repository's module, then SSA for the import closure.

import (
	"fmt"
	"go/token"
	"go/types"
	"os"
	"path/filepath"
	"sort"
	"strings"

	"golang.org/x/tools/go/packages"
	"golang.org/x/tools/go/ssa"
	"golang.org/x/tools/go/ssa/ssautil"
)

type Loaded struct {
	prog     *ssa.Program
	pkgs     []*packages.Package
	harness  *ssa.Package // package containing the harness functions
	overlay  map[string][]byte
	modDir   string
	harnDir  string // virtual directory of the harness package, relative to modDir
	repoPkgs map[string]bool
}

var goEnv = []string{"GOFLAGS=-mod=mod", "GOPROXY=off", "GOSUMDB=off", "GOTOOLCHAIN=local", "GO111MODULE=on"}

// overlayDir maps every *.go file of realDir to virtDir (optionally rewriting text).
func overlayDir(ov map[string][]byte, realDir, virtDir string, rewrite func(name string, src []byte) []byte) error {
	ents, err := os.ReadDir(realDir)
	if err != nil {
		return err
	}
	for _, e := range ents {
		if e.IsDir() || !strings.HasSuffix(e.Name(), ".go") {
			continue
		}
		b, err := os.ReadFile(filepath.Join(realDir, e.Name()))
		if err != nil {
			return err
		}
		if rewrite != nil {
			b = rewrite(e.Name(), b)
		}
		if b == nil {
			continue
		}
		ov[filepath.Join(virtDir, e.Name())] = b
	}
	return nil
}

type LoadSpec struct {
	ModDir   string            // module root, e.g. /repo/v5 or the staged legacy copy
	Overlay  map[string][]byte // virtual files
	Patterns []string          // packages to load
	Harness  string            // import path suffix of the harness package
}

func loadProgram(spec LoadSpec) (*Loaded, error) {
	cfg := &packages.Config{
		Mode:    packages.LoadAllSyntax,
		Dir:     spec.ModDir,
		Overlay: spec.Overlay,
		Env:     append(os.Environ(), goEnv...),
		Tests:   false,
	}
	pkgs, err := packages.Load(cfg, spec.Patterns...)
	if err != nil {
		return nil, err
	}
	var errs []string
	packages.Visit(pkgs, nil, func(p *packages.Package) {
		for _, e := range p.Errors {
			errs = append(errs, e.Error())
		}
	})
	if len(errs) > 0 {
		sort.Strings(errs)
		if len(errs) > 12 {
			errs = errs[:12]
		}
		return nil, fmt.Errorf("package errors:\n  %s", strings.Join(errs, "\n  "))
	}
	prog, spkgs := ssautil.AllPackages(pkgs, ssa.InstantiateGenerics)
	prog.Build()
	ld := &Loaded{prog: prog, pkgs: pkgs, overlay: spec.Overlay, modDir: spec.ModDir, repoPkgs: map[string]bool{}}
	for k, p := range pkgs {
		if spkgs[k] == nil {
			continue
		}
		if strings.HasSuffix(p.PkgPath, spec.Harness) {
			ld.harness = spkgs[k]
		}
	}
	if ld.harness == nil && spec.Harness != "" {
		return nil, fmt.Errorf("harness package %q not found among loaded packages", spec.Harness)
	}
	return ld, nil
}

// newInterp creates an interpreter instance (one per worker) and runs package initialisers.
func (ld *Loaded) newInterp(ex *Exec) *Interp {
	i := &Interp{
		prog:       ld.prog,
		globals:    map[*ssa.Global]*Value{},
		fninfo:     map[*ssa.Function]*fnInfo{},
		consts:     map[*ssa.Const]Value{},
		ex:         ex,
		canon:      &typeCanon{},
		pools:      map[*Value]*poolState{},
		syncMaps:   map[*Value]*MapObj{},
		intrinsics: map[string]intrinsic{},
		onceDone:   map[*Value]bool{},
		wgCount:    map[*Value]int64{},
	}
	ex.in = i
	rt := ld.prog.ImportedPackage("runtime")
	if rt != nil {
		i.runtimeErr = rt.Type("errorString").Object().Type()
	} else {
		i.runtimeErr = types.Typ[types.String]
	}
	rp := types.NewPackage("reflect", "reflect")
	i.rtypeT = types.NewNamed(types.NewTypeName(token.NoPos, rp, "rtype", nil), types.NewStruct(nil, nil), nil)
	i.registerStd()
	i.registerReflect()
	i.registerVX()
	i.registerEnv()
	i.installRedirects(ld.harness)
	i.initPkgs = map[string]bool{}
	for _, p := range []string{"errors", "bytes", "strings", "strconv", "unicode", "unicode/utf8", "unicode/utf16", "sort", "slices",
		"encoding/base64", "encoding", "encoding/json", "io", "math", "math/bits", "cmp", "internal/stringslite", "internal/itoa", "internal/oserror", "io/fs", "path",
		"encoding/binary", "bufio"} {
		i.initPkgs[p] = true
	}
	for _, p := range ld.prog.AllPackages() {
		path := p.Pkg.Path()
		if strings.HasPrefix(path, "github.com/evanphx/json-patch") {
			i.initPkgs[path] = true
		}
	}
	for _, pkg := range ld.prog.AllPackages() {
		for _, m := range pkg.Members {
			if g, ok := m.(*ssa.Global); ok {
				cell := new(Value)
				*cell = zero(deref(g.Type()))
				i.globals[g] = cell
			}
		}
	}
	return i
}

// runInit executes the package initialisers reachable from the harness package.
func (i *Interp) runInit(ld *Loaded) (err error) {
	defer func() {
		if r := recover(); r != nil {
			err = fmt.Errorf("init failed: %v", describePanic(i, r))
		}
	}()
	i.ex.budget = 1 << 40
	initFn := ld.harness.Func("init")
	i.call(nil, token.NoPos, initFn, nil)
	i.onceSnap = map[*Value]bool{}
	for k, v := range i.onceDone {
		i.onceSnap[k] = v
	}
	// snapshot restorable globals (repo + harness packages)
	i.snap = map[*ssa.Global]Value{}
	for g, cell := range i.globals {
		if g.Pkg != nil && strings.HasPrefix(g.Pkg.Pkg.Path(), "github.com/evanphx/json-patch") {
			i.snap[g] = copyVal(*cell)
		}
	}
	return nil
}

func (i *Interp) restoreGlobals() {
	for g, v := range i.snap {
		*i.globals[g] = copyVal(v)
	}
	i.pools = map[*Value]*poolState{}
	i.wgCount = map[*Value]int64{}
	i.depth = 0
	// a package-level sync.Once of the repository fires again on the next path, like the globals it guards
	// (Once values inside heap objects built by init, e.g. strings.Replacer, keep their state: so does the object)
	for g := range i.snap {
		if cell := i.globals[g]; cell != nil && !i.onceSnap[cell] {
			delete(i.onceDone, cell)
		}
	}
}

func describePanic(i *Interp, r interface{}) string {
	switch p := r.(type) {
	case targetPanic:
		return "target panic: " + i.panicString(nil, p)
	case abortPath:
		return "abort: " + p.reason + ": " + p.detail
	case enginePanic:
		return p.String()
	}
	return fmt.Sprint(r)
}
