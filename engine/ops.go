package main

import (
	"fmt"
	"go/token"
	"go/types"
	"math"
	"unicode/utf8"

	"golang.org/x/tools/go/ssa"
)

func (i *Interp) tt() *TermTable { return i.ex.tt }

// toTerm lifts a concrete scalar to a term of width w (0 = Bool).
func (i *Interp) toTerm(v Value, w uint8) *Term {
	switch v := v.(type) {
	case *Term:
		if v.W != w {
			panic(fmt.Sprintf("toTerm: width %d, want %d: %s", v.W, w, v))
		}
		return v
	case int64:
		return i.tt().Const(w, uint64(v))
	case bool:
		return i.tt().Bool(v)
	}
	panic(fmt.Sprintf("toTerm: %T", v))
}

func isSym(v Value) bool {
	_, ok := v.(*Term)
	return ok
}

// boolVal wraps a Bool term as a Value, collapsing constants.
func boolVal(t *Term) Value {
	if t.IsConst() {
		return t.Val == 1
	}
	return t
}

func (i *Interp) intVal(k intKind, t *Term) Value {
	if t.IsConst() {
		return normInt(k, int64(t.Val))
	}
	return t
}

func (i *Interp) unop(instr *ssa.UnOp, x Value) Value {
	switch instr.Op {
	case token.ARROW:
		i.unsupported("channel receive")
	case token.SUB:
		switch x := x.(type) {
		case int64:
			k, _ := intInfo(instr.X.Type())
			return normInt(k, -x)
		case float64:
			return -x
		case *Term:
			return i.tt().Neg(x)
		}
	case token.MUL:
		switch p := x.(type) {
		case *Value:
			if p == nil {
				i.rtPanic("invalid memory address or nil pointer dereference")
			}
			return copyVal(*p)
		case *symCell:
			return p.load(i)
		}
		panic(fmt.Sprintf("load from %T", x))
	case token.NOT:
		switch x := x.(type) {
		case bool:
			return !x
		case *Term:
			return boolVal(i.tt().Not(x))
		}
	case token.XOR:
		switch x := x.(type) {
		case int64:
			k, _ := intInfo(instr.X.Type())
			return normInt(k, ^x)
		case *Term:
			return i.tt().BNot(x)
		}
	}
	panic(fmt.Sprintf("invalid unary op %s %T", instr.Op, x))
}

func (i *Interp) binop(op token.Token, tx, ty types.Type, x, y Value) Value {
	switch op {
	case token.EQL:
		return i.equalVal(tx, x, y)
	case token.NEQ:
		r := i.equalVal(tx, x, y)
		if b, ok := r.(bool); ok {
			return !b
		}
		return boolVal(i.tt().Not(r.(*Term)))
	}
	if k, ok := intInfo(tx); ok {
		return i.binopInt(op, k, ty, x, y)
	}
	if isString(tx) {
		switch op {
		case token.ADD:
			return strConcat(x, y)
		case token.LSS:
			return i.strCompare(x, y) < 0
		case token.LEQ:
			return i.strCompare(x, y) <= 0
		case token.GTR:
			return i.strCompare(x, y) > 0
		case token.GEQ:
			return i.strCompare(x, y) >= 0
		}
	}
	if isFloat(tx) {
		a, b := x.(float64), y.(float64)
		f32 := tx.Underlying().(*types.Basic).Kind() == types.Float32
		rnd := func(f float64) Value {
			if f32 {
				return float64(float32(f))
			}
			return f
		}
		switch op {
		case token.ADD:
			return rnd(a + b)
		case token.SUB:
			return rnd(a - b)
		case token.MUL:
			return rnd(a * b)
		case token.QUO:
			return rnd(a / b)
		case token.LSS:
			return a < b
		case token.LEQ:
			return a <= b
		case token.GTR:
			return a > b
		case token.GEQ:
			return a >= b
		}
	}
	if isBool(tx) {
		// && and || are lowered to control flow; & | on bools do not exist. AND/OR may appear for untyped? no.
	}
	panic(fmt.Sprintf("invalid binary op %s on %s (%T, %T)", op, tx, x, y))
}

func (i *Interp) binopInt(op token.Token, k intKind, ty types.Type, x, y Value) Value {
	// shifts: y has its own (unsigned or signed) type
	if op == token.SHL || op == token.SHR {
		return i.shift(op, k, ty, x, y)
	}
	xc, xok := x.(int64)
	yc, yok := y.(int64)
	if xok && yok {
		switch op {
		case token.ADD:
			return normInt(k, xc+yc)
		case token.SUB:
			return normInt(k, xc-yc)
		case token.MUL:
			return normInt(k, xc*yc)
		case token.QUO:
			if yc == 0 {
				i.rtPanic("integer divide by zero")
			}
			if k.signed {
				if yc == -1 {
					return normInt(k, -xc)
				}
				return normInt(k, xc/yc)
			}
			return normInt(k, int64(uint64(xc)/uint64(yc)))
		case token.REM:
			if yc == 0 {
				i.rtPanic("integer divide by zero")
			}
			if k.signed {
				if yc == -1 {
					return int64(0)
				}
				return normInt(k, xc%yc)
			}
			return normInt(k, int64(uint64(xc)%uint64(yc)))
		case token.AND:
			return xc & yc
		case token.OR:
			return xc | yc
		case token.XOR:
			return normInt(k, xc^yc)
		case token.AND_NOT:
			return xc &^ yc
		case token.LSS:
			if k.signed {
				return xc < yc
			}
			return uint64(xc) < uint64(yc)
		case token.LEQ:
			if k.signed {
				return xc <= yc
			}
			return uint64(xc) <= uint64(yc)
		case token.GTR:
			if k.signed {
				return xc > yc
			}
			return uint64(xc) > uint64(yc)
		case token.GEQ:
			if k.signed {
				return xc >= yc
			}
			return uint64(xc) >= uint64(yc)
		}
		panic("binopInt: bad op " + op.String())
	}
	tt := i.tt()
	a, b := i.toTerm(x, k.w), i.toTerm(y, k.w)
	switch op {
	case token.ADD:
		return i.intVal(k, tt.Bin(OpAdd, a, b))
	case token.SUB:
		return i.intVal(k, tt.Bin(OpSub, a, b))
	case token.MUL:
		return i.intVal(k, tt.Bin(OpMul, a, b))
	case token.QUO, token.REM:
		if i.ex.decide(tt.Eq(b, tt.Const(k.w, 0))) {
			i.rtPanic("integer divide by zero")
		}
		var o Op
		switch {
		case op == token.QUO && k.signed:
			o = OpSDiv
		case op == token.QUO:
			o = OpUDiv
		case k.signed:
			o = OpSRem
		default:
			o = OpURem
		}
		return i.intVal(k, tt.Bin(o, a, b))
	case token.AND:
		return i.intVal(k, tt.Bin(OpBAnd, a, b))
	case token.OR:
		return i.intVal(k, tt.Bin(OpBOr, a, b))
	case token.XOR:
		return i.intVal(k, tt.Bin(OpBXor, a, b))
	case token.AND_NOT:
		return i.intVal(k, tt.Bin(OpBAnd, a, tt.BNot(b)))
	case token.LSS:
		if k.signed {
			return boolVal(tt.Bin(OpSLt, a, b))
		}
		return boolVal(tt.Bin(OpULt, a, b))
	case token.LEQ:
		if k.signed {
			return boolVal(tt.Bin(OpSLe, a, b))
		}
		return boolVal(tt.Bin(OpULe, a, b))
	case token.GTR:
		if k.signed {
			return boolVal(tt.Bin(OpSLt, b, a))
		}
		return boolVal(tt.Bin(OpULt, b, a))
	case token.GEQ:
		if k.signed {
			return boolVal(tt.Bin(OpSLe, b, a))
		}
		return boolVal(tt.Bin(OpULe, b, a))
	}
	panic("binopInt: bad op " + op.String())
}

func (i *Interp) shift(op token.Token, k intKind, ty types.Type, x, y Value) Value {
	ky, _ := intInfo(ty)
	if ky.w == 0 {
		ky = intKind{64, false}
	}
	xc, xok := x.(int64)
	yc, yok := y.(int64)
	if yok && ky.signed && yc < 0 {
		i.rtPanic("negative shift amount")
	}
	if xok && yok {
		n := uint64(yc)
		if op == token.SHL {
			if n >= uint64(k.w) {
				return int64(0)
			}
			return normInt(k, xc<<n)
		}
		if k.signed {
			if n >= 64 {
				n = 63
			}
			return normInt(k, xc>>n)
		}
		if n >= uint64(k.w) {
			return int64(0)
		}
		return normInt(k, int64(uint64(xc)>>n))
	}
	tt := i.tt()
	a := i.toTerm(x, k.w)
	// bring the shift count to the operand width, saturating
	var cnt *Term
	if yok {
		n := uint64(yc)
		if n > uint64(k.w) {
			n = uint64(k.w)
		}
		cnt = tt.Const(k.w, n)
	} else {
		yt := y.(*Term)
		if ky.signed {
			if i.ex.decide(tt.Bin(OpSLt, yt, tt.Const(yt.W, 0))) {
				i.rtPanic("negative shift amount")
			}
		}
		switch {
		case yt.W == k.w:
			cnt = yt
		case yt.W < k.w:
			cnt = tt.ZExt(yt, k.w)
		default:
			big := tt.Bin(OpULe, tt.Const(yt.W, uint64(k.w)), yt)
			cnt = tt.Ite(big, tt.Const(k.w, uint64(k.w)), tt.Trunc(yt, k.w))
		}
	}
	switch {
	case op == token.SHL:
		return i.intVal(k, tt.Bin(OpShl, a, cnt))
	case k.signed:
		return i.intVal(k, tt.Bin(OpAShr, a, cnt))
	default:
		return i.intVal(k, tt.Bin(OpLShr, a, cnt))
	}
}

// strEqTerm returns a bool or Bool term for x == y on strings.
func (i *Interp) strEq(x, y Value) Value {
	if xs, ok := x.(string); ok {
		if ys, ok := y.(string); ok {
			return xs == ys
		}
	}
	if strLen(x) != strLen(y) {
		return false
	}
	tt := i.tt()
	acc := tt.True
	n := strLen(x)
	for k := 0; k < n; k++ {
		a, b := strAt(x, k), strAt(y, k)
		ac, aok := a.(int64)
		bc, bok := b.(int64)
		if aok && bok {
			if ac != bc {
				return false
			}
			continue
		}
		acc = tt.And(acc, tt.Eq(i.toTerm(a, 8), i.toTerm(b, 8)))
	}
	return boolVal(acc)
}

// strCompare compares lexicographically, forking on symbolic bytes.
func (i *Interp) strCompare(x, y Value) int {
	if xs, ok := x.(string); ok {
		if ys, ok := y.(string); ok {
			switch {
			case xs < ys:
				return -1
			case xs > ys:
				return 1
			}
			return 0
		}
	}
	n := strLen(x)
	if m := strLen(y); m < n {
		n = m
	}
	tt := i.tt()
	for k := 0; k < n; k++ {
		a, b := strAt(x, k), strAt(y, k)
		ac, aok := a.(int64)
		bc, bok := b.(int64)
		if aok && bok {
			if ac < bc {
				return -1
			}
			if ac > bc {
				return 1
			}
			continue
		}
		at, bt := i.toTerm(a, 8), i.toTerm(b, 8)
		if i.ex.decide(tt.Eq(at, bt)) {
			continue
		}
		if i.ex.decide(tt.Bin(OpULt, at, bt)) {
			return -1
		}
		return 1
	}
	switch {
	case strLen(x) < strLen(y):
		return -1
	case strLen(x) > strLen(y):
		return 1
	}
	return 0
}

func (i *Interp) andVals(a, b Value) Value {
	if ab, ok := a.(bool); ok {
		if !ab {
			return false
		}
		return b
	}
	if bb, ok := b.(bool); ok {
		if !bb {
			return false
		}
		return a
	}
	return boolVal(i.tt().And(a.(*Term), b.(*Term)))
}

// equalVal implements == for values of static type t.
func (i *Interp) equalVal(t types.Type, x, y Value) Value {
	switch x := x.(type) {
	case bool:
		switch y := y.(type) {
		case bool:
			return x == y
		case *Term:
			return boolVal(i.tt().Eq(i.tt().Bool(x), y))
		}
	case int64:
		switch y := y.(type) {
		case int64:
			return x == y
		case *Term:
			return boolVal(i.tt().Eq(i.tt().Const(y.W, uint64(x)), y))
		}
	case *Term:
		return boolVal(i.tt().Eq(x, i.toTerm(y, x.W)))
	case float64:
		return x == y.(float64)
	case complex128:
		return x == y.(complex128)
	case string, *SymStr:
		return i.strEq(x, y)
	case *Value:
		switch y := y.(type) {
		case *Value:
			return x == y
		case *symCell:
			return false
		}
	case *symCell:
		if yc, ok := y.(*symCell); ok {
			return x == yc
		}
		return false
	case unsafePtr:
		return x.p == y.(unsafePtr).p
	case Slice:
		ys := y.(Slice)
		if x.a == nil || ys.a == nil {
			return x.a == nil && ys.a == nil
		}
		panic("comparing non-nil slices")
	case *MapObj:
		return x == y.(*MapObj)
	case *SymArr:
		if ys, ok := y.(Slice); ok && ys.a == nil {
			return false
		}
		return x == y
	case *chanObj:
		return x == y.(*chanObj)
	case nilFunc:
		_, ok := y.(nilFunc)
		return ok
	case *ssa.Function:
		if _, ok := y.(nilFunc); ok {
			return false
		}
		return x == y
	case *Closure:
		if _, ok := y.(nilFunc); ok {
			return false
		}
		return x == y
	case *ssa.Builtin:
		return false
	case Iface:
		yi := y.(Iface)
		if x.t == nil || yi.t == nil {
			return x.t == nil && yi.t == nil
		}
		if !types.Identical(x.t, yi.t) {
			return false
		}
		return i.equalVal(x.t, x.v, yi.v)
	case Struct:
		ys := y.(Struct)
		var acc Value = true
		st, _ := t.Underlying().(*types.Struct)
		for k := range x {
			var ft types.Type
			if st != nil {
				ft = st.Field(k).Type()
			}
			acc = i.andVals(acc, i.equalVal(ft, x[k], ys[k]))
			if acc == false {
				return false
			}
		}
		return acc
	case Array:
		ya := y.(Array)
		var acc Value = true
		var et types.Type
		if at, ok := t.Underlying().(*types.Array); ok {
			et = at.Elem()
		}
		for k := range x {
			acc = i.andVals(acc, i.equalVal(et, x[k], ya[k]))
			if acc == false {
				return false
			}
		}
		return acc
	case RType:
		yr, ok := y.(RType)
		return ok && x.t == yr.t
	case RValue:
		yr := y.(RValue)
		return x.t == yr.t && x.p == yr.p
	case nil:
		return y == nil
	}
	panic(fmt.Sprintf("equalVal: unhandled %T vs %T (static %v)", x, y, t))
}

// conv implements type conversion.
func (i *Interp) conv(tDst, tSrc types.Type, x Value) Value {
	ut_src := tSrc.Underlying()
	ut_dst := tDst.Underlying()

	// pointer <-> unsafe.Pointer
	switch ut_dst := ut_dst.(type) {
	case *types.Pointer:
		if up, ok := x.(unsafePtr); ok {
			return up.p
		}
		return x
	case *types.Basic:
		if ut_dst.Kind() == types.UnsafePointer {
			switch p := x.(type) {
			case *Value:
				return unsafePtr{p}
			case unsafePtr:
				return p
			case int64:
				return unsafePtr{}
			}
		}
	case *types.Slice:
		// string -> []byte / []rune
		if isString(ut_src) {
			eb, _ := ut_dst.Elem().Underlying().(*types.Basic)
			if eb != nil && eb.Kind() == types.Int32 {
				s, ok := x.(string)
				if !ok {
					i.unsupported("[]rune(symbolic string)")
				}
				var r []Value
				for _, c := range s {
					r = append(r, int64(c))
				}
				if r == nil {
					r = []Value{}
				}
				return Slice{r}
			}
			b := strBytes(x)
			c := make([]Value, len(b))
			copy(c, b)
			return Slice{c}
		}
		return x
	}

	switch src := ut_src.(type) {
	case *types.Slice:
		if isString(ut_dst) {
			eb, _ := src.Elem().Underlying().(*types.Basic)
			s := x.(Slice)
			if eb != nil && eb.Kind() == types.Int32 {
				var rs []rune
				for _, r := range s.a {
					rs = append(rs, rune(i.concInt(r, "rune slice")))
				}
				return string(rs)
			}
			return mkStr(s.a)
		}
		return x
	case *types.Basic:
		if ks, ok := basicIntKind(src.Kind()); ok {
			if kd, ok := intInfo(tDst); ok {
				switch v := x.(type) {
				case int64:
					return normInt(kd, v)
				case *Term:
					tt := i.tt()
					switch {
					case kd.w == v.W:
						return v
					case kd.w < v.W:
						return i.intVal(kd, tt.Trunc(v, kd.w))
					case ks.signed:
						return i.intVal(kd, tt.SExt(v, kd.w))
					default:
						return i.intVal(kd, tt.ZExt(v, kd.w))
					}
				}
			}
			if isString(ut_dst) {
				// string(rune)
				switch v := x.(type) {
				case int64:
					if !ks.signed && uint64(v) > math.MaxInt32 {
						return "�"
					}
					return string(rune(v))
				case *Term:
					tt := i.tt()
					if i.ex.decide(tt.Bin(OpULt, v, tt.Const(v.W, 0x80))) {
						return mkStr([]Value{i.intVal(intKind{8, false}, tt.Trunc(v, 8))})
					}
					c := i.concInt(v, "string(rune)")
					return string(rune(c))
				}
			}
			if isFloat(ut_dst) {
				v, ok := x.(int64)
				if !ok {
					i.unsupported("symbolic int -> float")
				}
				var f float64
				if ks.signed {
					f = float64(v)
				} else {
					f = float64(uint64(v))
				}
				if ut_dst.(*types.Basic).Kind() == types.Float32 {
					f = float64(float32(f))
				}
				return f
			}
		}
		if src.Info()&types.IsFloat != 0 {
			f := x.(float64)
			if kd, ok := intInfo(tDst); ok {
				if kd.signed {
					return normInt(kd, int64(f))
				}
				return normInt(kd, int64(uint64(f)))
			}
			if isFloat(ut_dst) {
				if ut_dst.(*types.Basic).Kind() == types.Float32 {
					return float64(float32(f))
				}
				return f
			}
		}
		if src.Info()&types.IsString != 0 && isString(ut_dst) {
			return x
		}
		if src.Kind() == types.UnsafePointer {
			if _, ok := ut_dst.(*types.Basic); ok {
				return int64(0) // uintptr(unsafe.Pointer): opaque
			}
		}
	}
	if types.Identical(ut_src, ut_dst) {
		return x
	}
	panic(fmt.Sprintf("unsupported conversion: %s -> %s (%T)", tSrc, tDst, x))
}

// boundsCheck decides idx in [0,n), panicking in the target on failure. For a
// symbolic in-range index it returns k=-1 and the index as a 64-bit term.
func (i *Interp) boundsCheck(idx Value, it types.Type, n int) (int, *Term) {
	switch v := idx.(type) {
	case int64:
		if v < 0 || v >= int64(n) {
			i.rtPanic(fmt.Sprintf("index out of range [%d] with length %d", v, n))
		}
		return int(v), nil
	case *Term:
		tt := i.tt()
		k, _ := intInfo(it)
		v64 := v
		if v.W < 64 {
			if k.signed {
				v64 = tt.SExt(v, 64)
			} else {
				v64 = tt.ZExt(v, 64)
			}
		}
		if !i.ex.decide(tt.Bin(OpULt, v64, tt.Const(64, uint64(n)))) {
			i.rtPanic(fmt.Sprintf("index out of range [sym] with length %d", n))
		}
		return -1, v64
	}
	panic(fmt.Sprintf("boundsCheck: %T", idx))
}

func allScalar(a []Value) bool {
	for _, v := range a {
		switch v.(type) {
		case int64, bool, *Term:
		default:
			return false
		}
	}
	return true
}

// selectScalar builds an ite-chain reading a[idx] for symbolic idx over scalar cells.
func (i *Interp) selectScalar(a []Value, idx *Term, et types.Type) Value {
	tt := i.tt()
	var w uint8
	if k, ok := intInfo(et); ok {
		w = k.w
	} else if isBool(et) {
		w = 0
	} else {
		return nil
	}
	if len(a) > 512 {
		return nil
	}
	// a table of constants becomes one lookup term (evaluated in O(1), cached by structure)
	allConst := true
	table := make([]uint64, len(a))
	for k, v := range a {
		switch x := v.(type) {
		case int64:
			table[k] = mask(w, uint64(x))
		case bool:
			if x {
				table[k] = 1
			}
		default:
			allConst = false
		}
		if !allConst {
			break
		}
	}
	if allConst && len(a) > 2 {
		res := tt.Lut(idx, w, table)
		if w == 0 {
			return boolVal(res)
		}
		k, _ := intInfo(et)
		return i.intVal(k, res)
	}
	idx64 := idx
	res := i.toTerm(a[len(a)-1], w)
	for k := len(a) - 2; k >= 0; k-- {
		res = tt.Ite(tt.Eq(idx64, tt.Const(64, uint64(k))), i.toTerm(a[k], w), res)
	}
	if w == 0 {
		return boolVal(res)
	}
	k, _ := intInfo(et)
	return i.intVal(k, res)
}

func (i *Interp) index(x, idx Value, instr *ssa.Index) Value {
	switch x := x.(type) {
	case Array:
		k, s64 := i.boundsCheck(idx, instr.Index.Type(), len(x))
		if k < 0 {
			et := instr.X.Type().Underlying().(*types.Array).Elem()
			if allScalar(x) {
				if v := i.selectScalar(x, s64, et); v != nil {
					return v
				}
			}
			k = int(i.concInt(idx, "array index"))
		}
		return copyVal(x[k])
	case string, *SymStr:
		k, s64 := i.boundsCheck(idx, instr.Index.Type(), strLen(x))
		if k < 0 {
			b := strBytes(x)
			if v := i.selectScalar(b, s64, types.Typ[types.Uint8]); v != nil {
				return v
			}
			k = int(i.concInt(idx, "string index"))
		}
		return strAt(x, k)
	}
	panic(fmt.Sprintf("unexpected x type in Index: %T", x))
}

func (i *Interp) indexAddr(x, idx Value, instr *ssa.IndexAddr) Value {
	switch x := x.(type) {
	case Slice:
		k, s64 := i.boundsCheck(idx, instr.Index.Type(), len(x.a))
		if k < 0 {
			if allScalar(x.a) && len(x.a) <= 512 {
				return &symCell{arr: x.a, idx: s64, et: instr.Type().Underlying().(*types.Pointer).Elem()}
			}
			k = int(i.concInt(idx, "slice index"))
		}
		return &x.a[k]
	case *Value:
		if x == nil {
			i.rtPanic("invalid memory address or nil pointer dereference")
		}
		a := (*x).(Array)
		k, s64 := i.boundsCheck(idx, instr.Index.Type(), len(a))
		if k < 0 {
			if allScalar(a) && len(a) <= 512 {
				return &symCell{arr: a, idx: s64, et: instr.Type().Underlying().(*types.Pointer).Elem()}
			}
			k = int(i.concInt(idx, "array index"))
		}
		return &a[k]
	case *SymArr:
		return x.cellAt(i, idx)
	}
	panic(fmt.Sprintf("unexpected x type in IndexAddr: %T", x))
}

// symCell is the address of a scalar element at a symbolic (in-range) index.
type symCell struct {
	arr []Value
	idx *Term
	et  types.Type
	sa  *SymArr // when addressing an abstract int slice
}

func (c *symCell) load(i *Interp) Value {
	if c.sa != nil {
		return c.sa.load(i, c.idx)
	}
	return i.selectScalar(c.arr, c.idx, c.et)
}

func (c *symCell) store(i *Interp, v Value) {
	if c.sa != nil {
		c.sa.store(i, c.idx, v)
		return
	}
	tt := i.tt()
	var w uint8
	k, isInt := intInfo(c.et)
	if isInt {
		w = k.w
	}
	idx64 := c.idx
	nv := i.toTerm(v, w)
	for j := range c.arr {
		old := i.toTerm(c.arr[j], w)
		r := tt.Ite(tt.Eq(idx64, tt.Const(64, uint64(j))), nv, old)
		if isInt {
			c.arr[j] = i.intVal(k, r)
		} else {
			c.arr[j] = boolVal(r)
		}
	}
}

func (i *Interp) slice(instr *ssa.Slice, x, lo, hi, max Value) Value {
	var Len, Cap int
	switch x := x.(type) {
	case string, *SymStr:
		Len = strLen(x)
	case Slice:
		Len = len(x.a)
		Cap = cap(x.a)
	case *Value:
		if x == nil {
			i.rtPanic("invalid memory address or nil pointer dereference")
		}
		a := (*x).(Array)
		Len = len(a)
		Cap = cap(a)
	case *SymArr:
		return x.slice(i, lo, hi)
	}
	l := 0
	if lo != nil {
		l = int(i.sliceBound(lo, "slice low"))
	}
	h := Len
	if hi != nil {
		h = int(i.sliceBound(hi, "slice high"))
	}
	var m int
	if max != nil {
		m = int(i.sliceBound(max, "slice max"))
	}
	switch x := x.(type) {
	case string, *SymStr:
		if l < 0 || h < l || h > Len {
			i.rtPanic(fmt.Sprintf("slice bounds out of range [%d:%d] with length %d", l, h, Len))
		}
		return strSlice(x, l, h)
	case Slice:
		if max == nil {
			m = Cap
		}
		if l < 0 || h < l || m < h || m > Cap {
			i.rtPanic(fmt.Sprintf("slice bounds out of range [%d:%d:%d] with capacity %d", l, h, m, Cap))
		}
		if x.a == nil {
			return Slice{}
		}
		return Slice{x.a[l:h:m]}
	case *Value:
		a := (*x).(Array)
		if max == nil {
			m = Cap
		}
		if l < 0 || h < l || m < h || m > Cap {
			i.rtPanic(fmt.Sprintf("slice bounds out of range [%d:%d:%d] with capacity %d", l, h, m, Cap))
		}
		return Slice{[]Value(a)[l:h:m]}
	}
	panic(fmt.Sprintf("slice: unexpected X type: %T", x))
}

func (i *Interp) sliceBound(v Value, what string) int64 {
	return i.concInt(v, what)
}

func (i *Interp) lookup(instr *ssa.Lookup, x, idx Value) Value {
	switch x := x.(type) {
	case *MapObj:
		var v Value
		ok := false
		if x != nil {
			v, ok = x.lookup(i, idx)
		}
		if !ok {
			v = zero(instr.X.Type().Underlying().(*types.Map).Elem())
		} else {
			v = copyVal(v)
		}
		if instr.CommaOk {
			return Tuple{v, ok}
		}
		return v
	case string, *SymStr:
		// string index via Lookup (s[i] in some forms)
		k, s64 := i.boundsCheck(idx, instr.Index.Type(), strLen(x))
		if k < 0 {
			if v := i.selectScalar(strBytes(x), s64, types.Typ[types.Uint8]); v != nil {
				return v
			}
			k = int(i.concInt(idx, "string index"))
		}
		return strAt(x, k)
	}
	panic(fmt.Sprintf("unexpected x type in Lookup: %T", x))
}

func (i *Interp) typeAssert(instr *ssa.TypeAssert, itf Iface) Value {
	var v Value
	err := ""
	if itf.t == nil {
		err = fmt.Sprintf("interface conversion: interface is nil, not %s", instr.AssertedType)
	} else if idst, ok := instr.AssertedType.Underlying().(*types.Interface); ok {
		v = itf
		if !i.implements(itf.t, idst) {
			err = fmt.Sprintf("interface conversion: %v does not implement %v", itf.t, instr.AssertedType)
		}
	} else if types.Identical(itf.t, instr.AssertedType) {
		v = itf.v
	} else {
		err = fmt.Sprintf("interface conversion: interface is %s, not %s", itf.t, instr.AssertedType)
	}
	if err != "" {
		if !instr.CommaOk {
			panic(targetPanic{Iface{t: i.runtimeErr, v: err}})
		}
		return Tuple{zero(instr.AssertedType), false}
	}
	if instr.CommaOk {
		return Tuple{v, true}
	}
	return v
}

func (i *Interp) implements(t types.Type, idst *types.Interface) bool {
	return types.Implements(t, idst)
}

// ---------------------------------------------------------------- iteration

type iter interface {
	next(fr *frame) Tuple
}

type stringIter struct {
	s   Value
	pos int
}

func (it *stringIter) next(fr *frame) Tuple {
	n := strLen(it.s)
	if it.pos >= n {
		return Tuple{false, int64(0), int64(0)}
	}
	switch s := it.s.(type) {
	case string:
		r, sz := utf8.DecodeRuneInString(s[it.pos:])
		p := it.pos
		it.pos += sz
		return Tuple{true, int64(p), int64(r)}
	}
	// symbolic: run utf8.DecodeRuneInString from the stdlib's SSA
	i := fr.i
	fn := i.stdFunc("unicode/utf8", "DecodeRuneInString")
	rest := strSlice(it.s, it.pos, n)
	res := i.call(fr, token.NoPos, fn, []Value{rest}).(Tuple)
	p := it.pos
	it.pos += int(i.concInt(res[1], "rune size"))
	return Tuple{true, int64(p), res[0]}
}

type mapIter struct {
	m    *MapObj
	keys []Value
	pos  int
}

func (it *mapIter) next(fr *frame) Tuple {
	for it.pos < len(it.keys) {
		k := it.keys[it.pos]
		it.pos++
		if v, ok := it.m.lookupExact(k); ok {
			return Tuple{true, k, copyVal(v)}
		}
	}
	return Tuple{false, nil, nil}
}

func (i *Interp) rangeIter(fr *frame, x Value, t types.Type) iter {
	switch x := x.(type) {
	case *MapObj:
		it := &mapIter{m: x}
		if x != nil {
			it.keys = x.snapshotKeys(i.nextMapOrder())
		}
		return it
	case string, *SymStr:
		return &stringIter{s: x}
	}
	panic(fmt.Sprintf("cannot range over %T", x))
}

func (i *Interp) stdFunc(pkg, name string) *ssa.Function {
	p := i.prog.ImportedPackage(pkg)
	if p == nil {
		i.unsupported("package not loaded: " + pkg)
	}
	f := p.Func(name)
	if f == nil {
		i.unsupported("no function " + pkg + "." + name)
	}
	return f
}

// ---------------------------------------------------------------- builtins

func (i *Interp) callBuiltin(caller *frame, pos token.Pos, fn *ssa.Builtin, args []Value) Value {
	switch fn.Name() {
	case "append":
		if len(args) == 1 {
			return args[0]
		}
		if sa, ok := args[0].(*SymArr); ok {
			return sa.appendSlice(i, args[1])
		}
		var add []Value
		switch s := args[1].(type) {
		case string, *SymStr:
			add = strBytes(s)
		case Slice:
			add = s.a
		}
		dst := args[0].(Slice)
		if len(add) == 0 {
			if dst.a == nil && args[1] != nil {
				// append(nil, empty...) stays nil
			}
			return dst
		}
		n := len(dst.a)
		if n+len(add) <= cap(dst.a) {
			r := dst.a[:n+len(add)]
			for k, v := range add {
				r[n+k] = copyVal(v)
			}
			return Slice{r}
		}
		nc := 2 * cap(dst.a)
		if nc < n+len(add) {
			nc = n + len(add)
		}
		if nc < 4 {
			nc = 4
		}
		r := make([]Value, n+len(add), nc)
		copy(r, dst.a)
		for k, v := range add {
			r[n+k] = copyVal(v)
		}
		// zero-fill spare capacity lazily: reslicing beyond len exposes nil cells; fill with zero of elem type
		if sig, ok := fn.Type().(*types.Signature); ok && sig.Results().Len() == 1 {
			if st, ok := sig.Results().At(0).Type().Underlying().(*types.Slice); ok {
				full := r[:nc]
				z := zero(st.Elem())
				for k := n + len(add); k < nc; k++ {
					full[k] = copyVal(z)
				}
			}
		}
		return Slice{r}
	case "copy":
		var src []Value
		switch s := args[1].(type) {
		case string, *SymStr:
			src = strBytes(s)
		case Slice:
			src = s.a
		}
		dst := args[0].(Slice).a
		n := len(src)
		if len(dst) < n {
			n = len(dst)
		}
		if n > 0 {
			for k := range dst[:n] {
				i.ex.onStore(&dst[k])
			}
			tmp := make([]Value, n)
			for k := 0; k < n; k++ {
				tmp[k] = copyVal(src[k])
			}
			copy(dst, tmp)
		}
		return int64(n)
	case "close":
		i.unsupported("close(chan)")
	case "delete":
		m := args[0].(*MapObj)
		if m != nil {
			m.delete(i, args[1])
		}
		return nil
	case "print", "println":
		return nil
	case "len":
		switch x := args[0].(type) {
		case string, *SymStr:
			return int64(strLen(x))
		case Array:
			return int64(len(x))
		case *Value:
			return int64(len((*x).(Array)))
		case Slice:
			return int64(len(x.a))
		case *MapObj:
			if x == nil {
				return int64(0)
			}
			return int64(x.Len())
		case *SymArr:
			return x.lenVal(i)
		}
		panic(fmt.Sprintf("len: illegal operand: %T", args[0]))
	case "cap":
		switch x := args[0].(type) {
		case Array:
			return int64(cap(x))
		case *Value:
			return int64(cap((*x).(Array)))
		case Slice:
			return int64(cap(x.a))
		case *SymArr:
			return x.capVal(i)
		}
		panic(fmt.Sprintf("cap: illegal operand: %T", args[0]))
	case "min", "max":
		sig := fn.Type().(*types.Signature)
		t := sig.Params().At(0).Type()
		res := args[0]
		for _, a := range args[1:] {
			op := token.LSS
			if fn.Name() == "max" {
				op = token.GTR
			}
			c := i.binop(op, t, t, a, res)
			if i.truth(c) {
				res = a
			}
		}
		return res
	case "clear":
		switch x := args[0].(type) {
		case *MapObj:
			if x != nil {
				x.clear()
			}
		case Slice:
			sig := fn.Type().(*types.Signature)
			z := zero(sig.Params().At(0).Type().Underlying().(*types.Slice).Elem())
			for k := range x.a {
				x.a[k] = copyVal(z)
			}
		}
		return nil
	case "real", "imag", "complex":
		i.unsupported("complex numbers")
	case "panic":
		panic(targetPanic{args[0]})
	case "recover":
		return doRecover(caller)
	case "ssa:wrapnilchk":
		recv := args[0]
		if p, ok := recv.(*Value); ok && p == nil {
			i.rtPanic(fmt.Sprintf("value method %s.%s called using nil pointer", valString(args[1]), valString(args[2])))
		}
		return recv
	}
	panic("unknown built-in: " + fn.Name())
}
