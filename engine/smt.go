package main

// Persistent SMT solver process (z3 -in / cvc5 --incremental) with push/pop.

import (
	"bufio"
	"fmt"
	"io"
	"os"
	"os/exec"
	"sort"
	"strconv"
	"strings"
	"time"
)

type SatResult int

const (
	Unsat SatResult = iota
	Sat
	Unknown
)

func (r SatResult) String() string { return [...]string{"unsat", "sat", "unknown"}[r] }

type Solver struct {
	name     string
	cmd      *exec.Cmd
	in       io.WriteCloser
	out      *bufio.Reader
	declared map[string]bool
	Queries  int
	Time     time.Duration
	Errors   int
	log      io.Writer
	lastSMT  string
}

func solverArgs(name string, timeoutMs int) (string, []string) {
	switch name {
	case "cvc5":
		return "cvc5", []string{"--incremental", "--lang=smt2", "--produce-models", "--tlimit-per=" + strconv.Itoa(timeoutMs)}
	case "z3":
		return "z3", []string{"-in", "-t:" + strconv.Itoa(timeoutMs)}
	default:
		return "z3-new", []string{"-in", "-t:" + strconv.Itoa(timeoutMs)}
	}
}

func NewSolver(name string, timeoutMs int) (*Solver, error) {
	bin, args := solverArgs(name, timeoutMs)
	cmd := exec.Command(bin, args...)
	in, err := cmd.StdinPipe()
	if err != nil {
		return nil, err
	}
	outp, err := cmd.StdoutPipe()
	if err != nil {
		return nil, err
	}
	cmd.Stderr = nil
	if err := cmd.Start(); err != nil {
		return nil, err
	}
	s := &Solver{name: name, cmd: cmd, in: in, out: bufio.NewReaderSize(outp, 1<<16), declared: map[string]bool{}}
	if name == "cvc5" {
		s.send("(set-logic ALL)")
	}
	s.send("(set-option :global-declarations true)")
	s.send("(push 1)")
	return s, nil
}

func (s *Solver) Close() {
	if s == nil || s.cmd == nil {
		return
	}
	s.in.Close()
	s.cmd.Process.Kill()
	s.cmd.Wait()
}

func (s *Solver) send(line string) {
	if s.log != nil {
		fmt.Fprintln(s.log, line)
	}
	io.WriteString(s.in, line)
	io.WriteString(s.in, "\n")
}

// ResetPath drops all assertions of the previous path.
func (s *Solver) ResetPath() {
	s.send("(pop 1)")
	s.send("(push 1)")
}

func (s *Solver) declare(t *Term) {
	set := map[string]*Term{}
	CollectVars(t, set, map[*Term]bool{})
	for n, v := range set {
		if !s.declared[n] {
			s.declared[n] = true
			s.send("(declare-const " + smtName(n) + " " + sortName(v.W) + ")")
		}
	}
}

func (s *Solver) Assert(t *Term) {
	s.declare(t)
	s.send("(assert " + SMT(t) + ")")
}

func (s *Solver) readLine() (string, error) {
	l, err := s.out.ReadString('\n')
	return strings.TrimSpace(l), err
}

// CheckWith decides satisfiability of the conjunction of pcs and extra (nothing else is asserted).
var slowQueryMs = func() int { n, _ := strconv.Atoi(os.Getenv("GOSX_SLOWQ")); return n }()

func (s *Solver) CheckWith(pcs []*Term, extra *Term, wantVars map[string]*Term) (SatResult, Model) {
	t0 := time.Now()
	s.send("(push 1)")
	var sb strings.Builder
	for _, c := range pcs {
		s.declare(c)
		a := "(assert " + SMT(c) + ")"
		s.send(a)
		if sb.Len() < 6000 {
			sb.WriteString(a)
			sb.WriteByte('\n')
		}
	}
	s.Time += time.Since(t0)
	tq := time.Now()
	res, m := s.Check(extra, wantVars)
	s.lastSMT = sb.String() + s.lastSMT + "\n(check-sat)"
	if slowQueryMs > 0 && time.Since(tq) > time.Duration(slowQueryMs)*time.Millisecond {
		var names []string
		for n := range wantVars {
			names = append(names, n)
		}
		sort.Strings(names)
		q := s.lastSMT
		fmt.Fprintf(os.Stderr, "SLOWQ %dms res=%v vars=%v pcs=%d size=%d\n", time.Since(tq).Milliseconds(), res, names, len(pcs), len(q))
		if os.Getenv("GOSX_SLOWQ_DUMP") != "" {
			fmt.Fprintln(os.Stderr, q)
		}
	}
	s.send("(pop 1)")
	return res, m
}

// Check asks whether the current assertions plus extra are satisfiable. When
// sat and wantVars != nil, the values of those variables are returned.
func (s *Solver) Check(extra *Term, wantVars map[string]*Term) (SatResult, Model) {
	t0 := time.Now()
	defer func() { s.Time += time.Since(t0); s.Queries++ }()
	if extra != nil {
		s.declare(extra)
		s.send("(push 1)")
		q := "(assert " + SMT(extra) + ")"
		s.lastSMT = q
		s.send(q)
	}
	s.send("(check-sat)")
	res := Unknown
	for {
		l, err := s.readLine()
		if err != nil {
			s.Errors++
			return Unknown, nil
		}
		if l == "" {
			continue
		}
		if strings.HasPrefix(l, "(error") {
			s.Errors++
			res = Unknown
			break
		}
		switch l {
		case "sat":
			res = Sat
		case "unsat":
			res = Unsat
		case "unknown", "timeout":
			res = Unknown
		default:
			continue
		}
		break
	}
	var m Model
	if res == Sat && wantVars != nil {
		m = Model{}
		var names []string
		var scal []string
		for n, v := range wantVars {
			if v.Op == OpVar {
				if !s.declared[n] {
					s.declared[n] = true
					s.send("(declare-const " + smtName(n) + " " + sortName(v.W) + ")")
				}
				names = append(names, n)
				scal = append(scal, smtName(n))
			}
		}
		if len(scal) > 0 {
			s.send("(get-value (" + strings.Join(scal, " ") + "))")
			txt := s.readSexp()
			parseGetValue(txt, m)
		}
		_ = names
	}
	if extra != nil {
		s.send("(pop 1)")
	}
	return res, m
}

// GetValues evaluates the given terms in the current model (after a sat Check with extra==nil).
func (s *Solver) GetValueOf(terms []*Term) []uint64 {
	var parts []string
	for _, t := range terms {
		parts = append(parts, SMT(t))
	}
	s.send("(get-value (" + strings.Join(parts, " ") + "))")
	txt := s.readSexp()
	vals := extractLiterals(txt)
	return vals
}

// readSexp reads one balanced s-expression from the solver.
func (s *Solver) readSexp() string {
	var sb strings.Builder
	depth := 0
	started := false
	inBar := false
	for {
		c, err := s.out.ReadByte()
		if err != nil {
			return sb.String()
		}
		sb.WriteByte(c)
		if c == '|' {
			inBar = !inBar
		}
		if inBar {
			continue
		}
		if c == '(' {
			depth++
			started = true
		} else if c == ')' {
			depth--
			if started && depth == 0 {
				return sb.String()
			}
		}
	}
}

// parseGetValue parses "((|a| #x01) (|b| true))" into m.
func parseGetValue(txt string, m Model) {
	i := 0
	n := len(txt)
	for i < n {
		// find a name
		j := strings.IndexByte(txt[i:], '|')
		if j < 0 {
			return
		}
		i += j + 1
		k := strings.IndexByte(txt[i:], '|')
		if k < 0 {
			return
		}
		name := txt[i : i+k]
		i += k + 1
		// skip spaces
		for i < n && (txt[i] == ' ' || txt[i] == '\n') {
			i++
		}
		// value token until ')' at depth 0
		st := i
		depth := 0
		for i < n {
			if txt[i] == '(' {
				depth++
			} else if txt[i] == ')' {
				if depth == 0 {
					break
				}
				depth--
			}
			i++
		}
		m[name] = parseLit(strings.TrimSpace(txt[st:i]))
	}
}

func parseLit(v string) uint64 {
	switch {
	case v == "true":
		return 1
	case v == "false":
		return 0
	case strings.HasPrefix(v, "#x"):
		x, _ := strconv.ParseUint(v[2:], 16, 64)
		return x
	case strings.HasPrefix(v, "#b"):
		x, _ := strconv.ParseUint(v[2:], 2, 64)
		return x
	case strings.HasPrefix(v, "(_ bv"):
		f := strings.Fields(v[5:])
		x, _ := strconv.ParseUint(f[0], 10, 64)
		return x
	}
	return 0
}

func extractLiterals(txt string) []uint64 {
	var out []uint64
	toks := strings.FieldsFunc(txt, func(r rune) bool { return r == ' ' || r == '\n' || r == '(' || r == ')' })
	for _, t := range toks {
		if t == "true" || t == "false" || strings.HasPrefix(t, "#x") || strings.HasPrefix(t, "#b") {
			out = append(out, parseLit(t))
		}
	}
	return out
}
