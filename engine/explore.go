package main

// Explorer: DFS over decision prefixes with re-execution, spread over workers.

import (
	"fmt"
	"go/token"
	"os"
	"runtime/debug"
	"sort"
	"strings"
	"sync"
	"time"

	"golang.org/x/tools/go/ssa"
)

type HarnessSpec struct {
	Name       string
	Fn         *ssa.Function
	Params     map[string]int
	MapReverse bool
	MapAlternate bool
	Witnesses  []string
}

type RunConfig struct {
	Harnesses []HarnessSpec
	Props     map[string]bool
	Workers   int
	Budget    int64
	MaxPaths  int
	Deadline  time.Time
	Solver    string
	Cross     string // second solver for property queries ("" = none)
	TimeoutMs int
	CapConc   int
	KeepPaths int // passing paths recorded per harness for cross-execution
	Verbose   bool
	CoverFns  map[*ssa.Function]bool
	Hist      string
	FeAudit   int // re-ask every n-th front-end decision to the solver (0 = off)
}

type PathRecord struct {
	Harness string            `json:"harness"`
	Vars    map[string]uint64 `json:"vars"`
	Params  map[string]int    `json:"params,omitempty"`
	Reaches []string          `json:"reaches"`
	Obs     map[string]string `json:"obs"`
}

type HarnessStats struct {
	Paths      int            `json:"paths"`
	Status     map[string]int `json:"status"`
	Reaches    map[string]int `json:"reaches"`
	Decisions  int            `json:"decisions"`
	Steps      int64          `json:"steps"`
	MaxSteps   int64          `json:"max_steps"`
	Incomplete []string       `json:"incomplete,omitempty"`
}

type RunResult struct {
	PerHarness map[string]*HarnessStats
	Cands      []Candidate
	Known      []Candidate
	Records    map[string][]PathRecord
	Q          QStats
	SolverTime time.Duration
	SolverQ    int
	SolverErrs int
	Incomplete []string
	EngineErrs []string
	Unsupp     map[string]int
	Cover      map[*ssa.BasicBlock]bool
	Called     map[*ssa.Function]bool
	SampleSMT  []string
	XDiff      int
	Wall       time.Duration
	TimedOut   bool
	PathCapHit bool
	ForkSites  map[string]int
}

type workQueue struct {
	mu     sync.Mutex
	cond   *sync.Cond
	items  []WorkItem
	active int
	closed bool
}

func newQueue() *workQueue {
	q := &workQueue{}
	q.cond = sync.NewCond(&q.mu)
	return q
}

func (q *workQueue) push(its []WorkItem) {
	q.mu.Lock()
	q.items = append(q.items, its...)
	q.mu.Unlock()
	q.cond.Broadcast()
}

func (q *workQueue) pop() (WorkItem, bool) {
	q.mu.Lock()
	defer q.mu.Unlock()
	for {
		if q.closed {
			return WorkItem{}, false
		}
		if n := len(q.items); n > 0 {
			it := q.items[n-1]
			q.items = q.items[:n-1]
			q.active++
			return it, true
		}
		if q.active == 0 {
			q.closed = true
			q.cond.Broadcast()
			return WorkItem{}, false
		}
		q.cond.Wait()
	}
}

func (q *workQueue) done() {
	q.mu.Lock()
	q.active--
	q.mu.Unlock()
	q.cond.Broadcast()
}

func (q *workQueue) close() {
	q.mu.Lock()
	q.closed = true
	q.mu.Unlock()
	q.cond.Broadcast()
}

func explore(ld *Loaded, cfg RunConfig) (*RunResult, error) {
	t0 := time.Now()
	debug.SetGCPercent(800)
	res := &RunResult{PerHarness: map[string]*HarnessStats{}, Records: map[string][]PathRecord{}, Unsupp: map[string]int{},
		Cover: map[*ssa.BasicBlock]bool{}, Called: map[*ssa.Function]bool{}}
	for _, h := range cfg.Harnesses {
		res.PerHarness[h.Name] = &HarnessStats{Status: map[string]int{}, Reaches: map[string]int{}}
	}
	q := newQueue()
	var init []WorkItem
	for k := len(cfg.Harnesses) - 1; k >= 0; k-- {
		init = append(init, WorkItem{Harness: k})
	}
	q.push(init)

	var mu sync.Mutex
	totalPaths := 0
	var wg sync.WaitGroup
	errCh := make(chan error, cfg.Workers)
	for w := 0; w < cfg.Workers; w++ {
		wg.Add(1)
		go func(w int) {
			defer wg.Done()
			ex := &Exec{tt: NewTermTable(), budget: cfg.Budget, capConc: cfg.CapConc, props: cfg.Props, feAudit: cfg.FeAudit}
			if cfg.Verbose {
				ex.forkSites = map[token.Pos]int{}
			}
			sol, err := NewSolver(cfg.Solver, cfg.TimeoutMs)
			if err != nil {
				errCh <- err
				q.close()
				return
			}
			ex.sol = sol
			defer sol.Close()
			if cfg.Cross != "" {
				s2, err := NewSolver(cfg.Cross, cfg.TimeoutMs)
				if err != nil {
					errCh <- err
					q.close()
					return
				}
				ex.sol2 = s2
				defer s2.Close()
			}
			in := ld.newInterp(ex)
			if cfg.CoverFns != nil {
				in.cover = map[*ssa.BasicBlock]bool{}
				in.coverFns = cfg.CoverFns
			}
			in.calledFns = map[*ssa.Function]bool{}
			ex.resetPath(WorkItem{})
			if err := in.runInit(ld); err != nil {
				errCh <- err
				q.close()
				return
			}
			for {
				it, ok := q.pop()
				if !ok {
					break
				}
				h := cfg.Harnesses[it.Harness]
				status, detail := runPath(in, ex, h, it)
				q.push(ex.items)
				mu.Lock()
				hs := res.PerHarness[h.Name]
				hs.Paths++
				hs.Status[status]++
				hs.Decisions += len(ex.log)
				hs.Steps += ex.steps
				if ex.steps > hs.MaxSteps {
					hs.MaxSteps = ex.steps
				}
				for k, v := range ex.reaches {
					hs.Reaches[k] += v
				}
				if cfg.Hist != "" {
					key := "hist:"
					for _, hn := range strings.Split(cfg.Hist, "+") {
						key += fmt.Sprintf("%s=%d ", hn, ex.chosen[hn])
					}
					hs.Reaches[key]++
				}
				switch status {
				case "unsupported":
					res.Unsupp[detail]++
				case "engine":
					if len(res.EngineErrs) < 20 {
						res.EngineErrs = append(res.EngineErrs, h.Name+": "+detail)
					}
				case "budget", "cap":
					hs.Incomplete = appendUniq(hs.Incomplete, status+": "+detail)
				}
				for _, why := range ex.incompl {
					hs.Incomplete = appendUniq(hs.Incomplete, why)
				}
				ex.incompl = nil
				res.Cands = append(res.Cands, ex.cands...)
				res.Known = append(res.Known, ex.known...)
				if status == "ok" && len(res.Records[h.Name]) < cfg.KeepPaths {
					res.Records[h.Name] = append(res.Records[h.Name], ex.pathRecord(h))
				}
				if len(res.SampleSMT) < 3 && ex.lastPropSMT != "" {
					res.SampleSMT = append(res.SampleSMT, ex.lastPropSMT)
					ex.lastPropSMT = ""
				}
				totalPaths++
				stop := false
				if cfg.MaxPaths > 0 && totalPaths >= cfg.MaxPaths {
					res.PathCapHit = true
					stop = true
				}
				if !cfg.Deadline.IsZero() && time.Now().After(cfg.Deadline) {
					res.TimedOut = true
					stop = true
				}
				if cfg.Verbose && totalPaths%500 == 0 {
					fmt.Fprintf(os.Stderr, "  paths=%d queue=%d cands=%d  %.0fs\n", totalPaths, len(q.items), len(res.Cands), time.Since(t0).Seconds())
				}
				mu.Unlock()
				q.done()
				if stop {
					q.close()
					break
				}
			}
			mu.Lock()
			res.Q.FeasSat += ex.st.FeasSat
			res.Q.FeasUnsat += ex.st.FeasUnsat
			res.Q.FeasUnknown += ex.st.FeasUnknown
			res.Q.PropSat += ex.st.PropSat
			res.Q.PropUnsat += ex.st.PropUnsat
			res.Q.PropUnknown += ex.st.PropUnknown
			res.Q.FrontEnd += ex.st.FrontEnd
			res.Q.FeAudited += ex.st.FeAudited
			res.Q.FeAuditDiff += ex.st.FeAuditDiff
			res.Q.ModelHits += ex.st.ModelHits
			res.SolverTime += sol.Time
			res.SolverQ += sol.Queries
			res.SolverErrs += sol.Errors
			res.XDiff += ex.xdiff
			for p, n := range ex.forkSites {
				if res.ForkSites == nil {
					res.ForkSites = map[string]int{}
				}
				res.ForkSites[ld.prog.Fset.Position(p).String()] += n
			}
			for b := range in.cover {
				res.Cover[b] = true
			}
			for f := range in.calledFns {
				res.Called[f] = true
			}
			mu.Unlock()
		}(w)
	}
	wg.Wait()
	select {
	case err := <-errCh:
		return nil, err
	default:
	}
	res.Wall = time.Since(t0)
	q.mu.Lock()
	left := len(q.items)
	q.mu.Unlock()
	if left > 0 {
		res.Incomplete = append(res.Incomplete, fmt.Sprintf("%d work items left unexplored (path cap or deadline)", left))
	}
	for n, hs := range res.PerHarness {
		for _, why := range hs.Incomplete {
			res.Incomplete = appendUniq(res.Incomplete, n+": "+why)
		}
	}
	for what, n := range res.Unsupp {
		res.Incomplete = appendUniq(res.Incomplete, fmt.Sprintf("unsupported (%d paths): %s", n, what))
	}
	for _, e := range res.EngineErrs {
		res.Incomplete = appendUniq(res.Incomplete, "engine error: "+e)
	}
	if res.SolverErrs > 0 {
		res.Incomplete = append(res.Incomplete, fmt.Sprintf("%d solver (error …) replies", res.SolverErrs))
	}
	sort.Strings(res.Incomplete)
	return res, nil
}

func appendUniq(l []string, s string) []string {
	for _, x := range l {
		if x == s {
			return l
		}
	}
	if len(l) >= 30 {
		return l
	}
	return append(l, s)
}

// runPath executes one path of harness h following the item's decision prefix.
func runPath(in *Interp, ex *Exec, h HarnessSpec, it WorkItem) (status, detail string) {
	ex.resetPath(it)
	ex.harness = h.Name
	ex.harnessIx = it.Harness
	ex.params = h.Params
	in.restoreGlobals()
	in.mapReverse = h.MapReverse
	in.mapAlternate = h.MapAlternate
	in.mapRanges = 0
	defer func() {
		r := recover()
		if r == nil {
			return
		}
		switch p := r.(type) {
		case abortPath:
			status, detail = p.reason, p.detail
		case targetPanic:
			msg := in.panicString(nil, p)
			id := ex.lastProp
			if id == "" {
				id = "C04/uncaught-panic"
			}
			ex.candidate("panic", "C04/uncaught-panic", "uncaught panic in harness: "+msg, "", ex.model)
			status, detail = "panic", msg
		case enginePanic:
			status, detail = "engine", p.String()
		default:
			status = "engine"
			st := string(debug.Stack())
			if k := strings.Index(st, "panic("); k >= 0 {
				st = st[k:]
			}
			if len(st) > 1500 {
				st = st[:1500]
			}
			detail = fmt.Sprintf("%v\n%s", r, st)
		}
	}()
	in.call(nil, token.NoPos, h.Fn, nil)
	if ex.pos < len(ex.prefix) {
		return "engine", fmt.Sprintf("replay divergence: path ended with %d unused decisions", len(ex.prefix)-ex.pos)
	}
	return "ok", ""
}

func (e *Exec) pathRecord(h HarnessSpec) PathRecord {
	r := PathRecord{Harness: h.Name, Vars: map[string]uint64{}, Obs: map[string]string{}, Params: h.Params}
	for _, n := range e.varSeq {
		v := e.vars[n]
		r.Vars[n] = mask(v.W, e.model[n])
	}
	for k, v := range e.chosen {
		r.Vars["choose:"+k] = v
	}
	for k := range e.reaches {
		r.Reaches = append(r.Reaches, k)
	}
	sort.Strings(r.Reaches)
	cnt := map[string]int{}
	for _, o := range e.obs {
		name := o.Name
		cnt[name]++
		if cnt[name] > 1 {
			name = fmt.Sprintf("%s#%d", name, cnt[name])
		}
		r.Obs[name] = renderBytes(o.Data, e.model)
	}
	return r
}
