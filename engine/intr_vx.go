package main

// Intrinsics behind the harness API (package vx).

import (
	"fmt"
	"go/token"
)

func vstr(v Value) string {
	s, ok := v.(string)
	if !ok {
		panic(abortPath{reason: "engine", detail: "vx: name/id argument must be a concrete string"})
	}
	return s
}

func (i *Interp) registerVX() {
	V := func(name string, f intrinsic) { i.intrinsics["vx."+name] = f }
	e := i.ex

	V("Byte", func(fr *frame, a []Value) Value { return i.ex.newVar(vstr(a[0]), 8) })
	V("Bool", func(fr *frame, a []Value) Value { return i.ex.newVar(vstr(a[0]), 0) })
	V("Int", func(fr *frame, a []Value) Value { return i.ex.newVar(vstr(a[0]), 64) })
	V("Int64", func(fr *frame, a []Value) Value { return i.ex.newVar(vstr(a[0]), 64) })
	V("Bytes", func(fr *frame, a []Value) Value {
		n := int(i.concInt(a[1], "vx.Bytes"))
		s := make([]Value, n)
		base := vstr(a[0])
		for k := range s {
			s[k] = i.ex.newVar(fmt.Sprintf("%s[%d]", base, k), 8)
		}
		return Slice{s}
	})
	V("Choose", func(fr *frame, a []Value) Value {
		return int64(i.ex.choose(vstr(a[0]), int(i.concInt(a[1], "vx.Choose"))))
	})
	V("Assume", func(fr *frame, a []Value) Value {
		i.ex.assume(a[0])
		return nil
	})
	V("Assert", func(fr *frame, a []Value) Value {
		i.ex.assertProp(a[0], vstr(a[1]), "")
		return nil
	})
	V("AssertKnown", func(fr *frame, a []Value) Value {
		i.ex.assertProp(a[0], vstr(a[1]), vstr(a[2]))
		return nil
	})
	V("Reach", func(fr *frame, a []Value) Value {
		i.ex.reaches[vstr(a[0])]++
		return nil
	})
	V("Observe", func(fr *frame, a []Value) Value {
		i.ex.obs = append(i.ex.obs, Obs{Name: vstr(a[0]), Data: append([]Value(nil), bytesOf(a[1])...)})
		return nil
	})
	V("ObserveStr", func(fr *frame, a []Value) Value {
		i.ex.obs = append(i.ex.obs, Obs{Name: vstr(a[0]), Data: append([]Value(nil), bytesOf(a[1])...)})
		return nil
	})
	V("Param", func(fr *frame, a []Value) Value {
		n := vstr(a[0])
		v, ok := i.ex.params[n]
		if !ok {
			panic(abortPath{reason: "engine", detail: "vx.Param: no parameter " + n})
		}
		return int64(v)
	})
	V("ParamOr", func(fr *frame, a []Value) Value {
		n := vstr(a[0])
		if v, ok := i.ex.params[n]; ok {
			return int64(v)
		}
		return a[1]
	})
	V("CatchPanic", func(fr *frame, a []Value) Value {
		return i.catchPanic(fr, a[0])
	})
	V("PanicMsg", func(fr *frame, a []Value) Value { return i.lastPanicMsg })
	V("ReadOnly", func(fr *frame, a []Value) Value {
		s := a[0].(Slice)
		tag := vstr(a[1])
		full := s.a[:cap(s.a)]
		for k := range full {
			i.ex.readOnly[&full[k]] = tag
		}
		return nil
	})
	V("Writable", func(fr *frame, a []Value) Value {
		s := a[0].(Slice)
		full := s.a[:cap(s.a)]
		for k := range full {
			delete(i.ex.readOnly, &full[k])
		}
		return nil
	})
	V("And", func(fr *frame, a []Value) Value { return i.andVals(a[0], a[1]) })
	V("Or", func(fr *frame, a []Value) Value {
		na, nb := i.notVal(a[0]), i.notVal(a[1])
		return i.notVal(i.andVals(na, nb))
	})
	V("Not", func(fr *frame, a []Value) Value { return i.notVal(a[0]) })
	V("Implies", func(fr *frame, a []Value) Value {
		return i.notVal(i.andVals(a[0], i.notVal(a[1])))
	})
	V("B2I", func(fr *frame, a []Value) Value {
		switch c := a[0].(type) {
		case bool:
			if c {
				return int64(1)
			}
			return int64(0)
		case *Term:
			tt := i.tt()
			return tt.Ite(c, tt.Const(64, 1), tt.Const(64, 0))
		}
		panic(enginePanic{v: "vx.B2I: unexpected operand"})
	})
	V("EqBytes", func(fr *frame, a []Value) Value {
		return i.strEq(mkStr(bytesOf(a[0])), mkStr(bytesOf(a[1])))
	})
	V("EqStr", func(fr *frame, a []Value) Value { return i.strEq(a[0], a[1]) })
	V("IsSymbolic", func(fr *frame, a []Value) Value { return true })
	V("Note", func(fr *frame, a []Value) Value {
		// readable rendering of an input for the replay file; bytes evaluated under the model at report time
		i.ex.obs = append(i.ex.obs, Obs{Name: "note:" + vstr(a[0]), Data: append([]Value(nil), bytesOf(a[1])...)})
		return nil
	})
	V("SymIntSlice", func(fr *frame, a []Value) Value {
		name := vstr(a[0])
		tt := i.tt()
		n := i.ex.newVar(name+".len", 64)
		arr := tt.ArrVar(name + ".arr")
		i.ex.vars[name+".arr"] = arr
		sa := &SymArr{arr: arr, n: n, cp: i.ex.newVar(name+".cap", 64)}
		// 0 <= len <= cap <= 2^31
		i.ex.assume(boolVal(tt.And(tt.Bin(OpULe, sa.n, sa.cp), tt.Bin(OpULe, sa.cp, tt.Const(64, 1<<31)))))
		return sa
	})
	_ = e
}

func (i *Interp) notVal(v Value) Value {
	switch v := v.(type) {
	case bool:
		return !v
	case *Term:
		return boolVal(i.tt().Not(v))
	}
	panic("notVal")
}

// catchPanic runs f and reports whether the target program panicked.
func (i *Interp) catchPanic(fr *frame, f Value) (res Value) {
	depth := i.depth
	defer func() {
		if r := recover(); r != nil {
			if tp, ok := r.(targetPanic); ok {
				i.depth = depth
				i.lastPanicMsg = i.panicString(fr, tp)
				res = true
				return
			}
			panic(r)
		}
	}()
	i.call(fr, token.NoPos, f, nil)
	return false
}

func (i *Interp) panicString(fr *frame, tp targetPanic) string {
	itf, ok := tp.v.(Iface)
	if !ok {
		return valString(tp.v)
	}
	if itf.t == nil {
		return "panic(nil)"
	}
	if s, ok := itf.v.(string); ok {
		return s
	}
	defer func() { recover() }()
	if m := i.findMethod(itf.t, "Error"); m != nil {
		if s, ok := i.call(fr, token.NoPos, m, []Value{itf.v}).(string); ok {
			return s
		}
	}
	return itf.t.String() + ": " + valString(itf.v)
}
