package main

// SymArr: abstract int slice with symbolic length and SMT-array contents
// (used for the scanner's parseState at symbolic nesting depth).

type SymArr struct {
	arr *Term // (Array BV64 BV64)
	n   *Term // length, BV64
	cp  *Term // capacity, BV64 (>= n)
}

func (s *SymArr) lenVal(i *Interp) Value { return i.intVal(intKind{64, true}, s.n) }
func (s *SymArr) capVal(i *Interp) Value { return i.intVal(intKind{64, true}, s.cp) }

func (s *SymArr) inRange(i *Interp, idx Value, limit *Term, what string) *Term {
	tt := i.tt()
	it := i.toTerm(idx, 64)
	if !i.ex.decide(tt.Bin(OpULt, it, limit)) {
		i.rtPanic("index out of range [sym] (" + what + ")")
	}
	return it
}

func (s *SymArr) cellAt(i *Interp, idx Value) Value {
	it := s.inRange(i, idx, s.n, "abstract slice index")
	return &symCell{sa: s, idx: it}
}

func (s *SymArr) load(i *Interp, idx *Term) Value {
	return i.intVal(intKind{64, true}, i.tt().Select(s.arr, idx))
}

func (s *SymArr) store(i *Interp, idx *Term, v Value) {
	s.arr = i.tt().Store(s.arr, idx, i.toTerm(v, 64))
}

// slice implements s[lo:hi] (shares contents; only lo==0 or absent is supported).
func (s *SymArr) slice(i *Interp, lo, hi Value) Value {
	tt := i.tt()
	if lo != nil {
		if l, ok := lo.(int64); !ok || l != 0 {
			i.unsupported("abstract slice with non-zero low bound")
		}
	}
	n := s.n
	if hi != nil {
		ht := i.toTerm(hi, 64)
		// 0 <= hi <= cap  (unsigned compare covers negatives)
		if !i.ex.decide(tt.Bin(OpULe, ht, s.cp)) {
			i.rtPanic("slice bounds out of range (abstract slice)")
		}
		n = ht
	}
	return &SymArr{arr: s.arr, n: n, cp: s.cp}
}

// appendSlice appends the elements of a concrete slice.
func (s *SymArr) appendSlice(i *Interp, add Value) Value {
	tt := i.tt()
	as, ok := add.(Slice)
	if !ok {
		i.unsupported("append of non-slice to abstract slice")
	}
	r := &SymArr{arr: s.arr, n: s.n, cp: s.cp}
	for _, v := range as.a {
		r.arr = tt.Store(r.arr, r.n, i.toTerm(v, 64))
		r.n = tt.Bin(OpAdd, r.n, tt.Const(64, 1))
	}
	// capacity grows when needed; only cap >= len matters to the code under test
	r.cp = tt.Ite(tt.Bin(OpULt, r.cp, r.n), r.n, r.cp)
	return r
}
