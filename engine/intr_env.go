package main

import "golang.org/x/tools/go/ssa"

// Environment stubs for the command (C20). The stubs themselves are ordinary Go functions in the
// in-package harness (harness/incmd): the engine only redirects the command's calls to them.
var envRedirects = map[string]string{
	"github.com/jessevdk/go-flags.Parse": "vxstub_flags_Parse",
	"os.Stat":                            "vxstub_os_Stat",
	"path/filepath.Abs":                  "vxstub_filepath_Abs",
	"io/ioutil.ReadFile":                 "vxstub_ioutil_ReadFile",
	"io/ioutil.ReadAll":                  "vxstub_ioutil_ReadAll",
	"os.ReadFile":                        "vxstub_ioutil_ReadFile",
	"io.ReadAll":                         "vxstub_ioutil_ReadAll",
	"log.Fatalf":                         "vxstub_log_Fatalf",
	"fmt.Printf":                         "vxstub_fmt_Printf",
}

func (i *Interp) registerEnv() {}

// installRedirects activates the stubs found in the harness package (package main of the command).
func (i *Interp) installRedirects(h *ssa.Package) {
	if h == nil || h.Pkg.Name() != "main" {
		return
	}
	for callee, stub := range envRedirects {
		if f := h.Func(stub); f != nil {
			if i.redirect == nil {
				i.redirect = map[string]*ssa.Function{}
			}
			i.redirect[callee] = f
		}
	}
}
