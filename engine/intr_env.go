package main

// Environment stubs for the command (C20); filled in by the C20 harness work.
func (i *Interp) registerEnv() {}
