package main

import "golang.org/x/tools/go/ssa"

// Environment stubs for the command (C20). The stubs themselves are ordinary Go functions in the
// in-package harness (harness/incmd): the engine only redirects the command's calls to them.
var envRedirects = map[string]string{
	"github.com/jessevdk/go-flags.Parse": "vxstub_flags_Parse",
	"os.Stat":                            "vxstub_os_Stat",
	"path/filepath.Abs":                  "vxstub_filepath_Abs",
	"io/ioutil.ReadFile":                 "vxstub_ioutil_ReadFile",
	"os.ReadFile":                        "vxstub_ioutil_ReadFile",
	"os.Open":                            "vxstub_os_Open",
	"log.Fatalf":                         "vxstub_log_Fatalf",
	"log.Fatal":                          "vxstub_log_Fatal",
	"log.Fatalln":                        "vxstub_log_Fatalln",
	"log.Printf":                         "vxstub_log_Printf",
	"log.Print":                          "vxstub_log_Print",
	"log.Println":                        "vxstub_log_Println",
	"fmt.Printf":                         "vxstub_fmt_Printf",
	"fmt.Print":                          "vxstub_fmt_Print",
	"fmt.Println":                        "vxstub_fmt_Println",
	"fmt.Fprintf":                        "vxstub_fmt_Fprintf",
	"fmt.Fprint":                         "vxstub_fmt_Fprint",
	"fmt.Fprintln":                       "vxstub_fmt_Fprintln",
	"os.Exit":                            "vxstub_os_Exit",
}

// envRedirectsAny: redirected whoever the caller is (the standard library reads os.Stdin through these when
// the command hands the handle to io.ReadAll, a bufio.Reader, a json.Decoder, io.Copy ...).
var envRedirectsAny = map[string]string{
	"(*os.File).Read":        "vxstub_file_Read",
	"(*os.File).Write":       "vxstub_file_Write",
	"(*os.File).WriteString": "vxstub_file_WriteString",
	"(*os.File).WriteTo":     "vxstub_file_WriteTo",
	"(*os.File).ReadFrom":    "vxstub_file_ReadFrom",
	"(*os.File).Close":       "vxstub_file_Close",
}

func (i *Interp) registerEnv() {}

// installRedirects activates the stubs found in the harness package (package main of the command).
func (i *Interp) installRedirects(h *ssa.Package) {
	if h == nil || h.Pkg.Name() != "main" {
		return
	}
	for callee, stub := range envRedirects {
		if f := h.Func(stub); f != nil {
			if i.redirect == nil {
				i.redirect = map[string]*ssa.Function{}
			}
			i.redirect[callee] = f
		}
	}
	for callee, stub := range envRedirectsAny {
		if f := h.Func(stub); f != nil {
			if i.redirectAny == nil {
				i.redirectAny = map[string]*ssa.Function{}
			}
			i.redirectAny[callee] = f
		}
	}
}
