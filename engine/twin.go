package main

// Native twin: the same harness sources compiled with `go test -c -overlay`
// against the real packages; used to confirm every counterexample and to
// cross-execute sample paths (translator validation).

import (
	"encoding/json"
	"fmt"
	"os"
	"os/exec"
	"path/filepath"
	"sort"
	"strings"
	"time"

	"golang.org/x/tools/go/ssa"
)

type Twin struct {
	dir  string
	bins map[string]string // package import path -> test binary
	t    *Target
	env  []string
}

type NativeResult struct {
	Harness    string            `json:"harness"`
	Failed     []string          `json:"failed"`
	Known      []string          `json:"known"`
	Reaches    []string          `json:"reaches"`
	Obs        map[string]string `json:"obs"`
	Panic      string            `json:"panic"`
	AssumeFail bool              `json:"assume_fail"`
	Missing    []string          `json:"missing"`
	ExitErr    string            `json:"exit_err,omitempty"`
}

type ReplayFile struct {
	Harness  string            `json:"harness"`
	Target   string            `json:"target"`
	Pkg      string            `json:"pkg"`
	Vars     map[string]uint64 `json:"vars"`
	Params   map[string]int    `json:"params"`
	Property string            `json:"property,omitempty"`
	AssertID string            `json:"assert_id,omitempty"`
	Kind     string            `json:"kind,omitempty"`
	Msg      string            `json:"msg,omitempty"`
	Known    string            `json:"known,omitempty"`
	Render   map[string]string `json:"render,omitempty"`
	Native   *NativeResult     `json:"native,omitempty"`
}

func harnessFuncs(p *ssa.Package) []string {
	var out []string
	for n, m := range p.Members {
		if f, ok := m.(*ssa.Function); ok && strings.HasPrefix(n, "H_") && f.Signature.Params().Len() == 0 {
			out = append(out, n)
		}
	}
	sort.Strings(out)
	return out
}

func vxImport(kind string) string {
	if kind == "legacy" || kind == "cmdlegacy" {
		return legacyPath + "/zzverif/vx"
	}
	return v5Path + "/zzverif/vx"
}

func genTestMain(pkgName, vxPath string, funcs []string) []byte {
	var sb strings.Builder
	fmt.Fprintf(&sb, "package %s\n\nimport (\n\t\"os\"\n\t\"runtime/debug\"\n\t\"testing\"\n\n\tvxrt %q\n)\n\n", pkgName, vxPath)
	sb.WriteString("var zzHarnesses = map[string]func(){\n")
	for _, f := range funcs {
		fmt.Fprintf(&sb, "\t%q: %s,\n", f, f)
	}
	sb.WriteString("}\n\nfunc TestMain(m *testing.M) {\n\tdebug.SetGCPercent(-1)\n\tif err := vxrt.Load(); err != nil {\n\t\tprintln(err.Error())\n\t\tos.Exit(3)\n\t}\n")
	sb.WriteString("\tf := zzHarnesses[vxrt.HarnessName()]\n\tif f == nil {\n\t\tprintln(\"no such harness\", vxrt.HarnessName())\n\t\tos.Exit(4)\n\t}\n\tvxrt.Run(f)\n\tos.Exit(0)\n}\n")
	return []byte(sb.String())
}

// buildTwin compiles test binaries for the packages that contain the given harness functions.
func buildTwin(t *Target, fns []*ssa.Function, outDir string) (*Twin, error) {
	tw := &Twin{dir: outDir, bins: map[string]string{}, t: t}
	os.RemoveAll(outDir)
	if err := os.MkdirAll(outDir, 0o755); err != nil {
		return nil, err
	}
	pkgs := map[*ssa.Package]bool{}
	for _, f := range fns {
		pkgs[f.Pkg] = true
	}
	// materialise the overlay
	repl := map[string]string{}
	n := 0
	write := func(virt string, content []byte) error {
		real := filepath.Join(outDir, fmt.Sprintf("ov%03d_%s", n, filepath.Base(virt)))
		n++
		if err := os.WriteFile(real, content, 0o644); err != nil {
			return err
		}
		repl[virt] = real
		return nil
	}
	for virt, content := range t.overlay {
		if err := write(virt, content); err != nil {
			return nil, err
		}
	}
	type job struct {
		pkg *ssa.Package
		dir string
	}
	var jobs []job
	for p := range pkgs {
		// directory of the package = directory of any of its files
		var dir string
		for _, pp := range t.pkgs {
			_ = pp
		}
		rel := strings.TrimPrefix(p.Pkg.Path(), t.modulePath())
		dir = filepath.Join(t.modDir, filepath.FromSlash(strings.TrimPrefix(rel, "/")))
		tm := genTestMain(p.Pkg.Name(), vxImport(t.kind), harnessFuncs(p))
		if err := write(filepath.Join(dir, "zz_verif_main_test.go"), tm); err != nil {
			return nil, err
		}
		jobs = append(jobs, job{p, dir})
	}
	ovJSON, _ := json.Marshal(map[string]interface{}{"Replace": repl})
	ovPath := filepath.Join(outDir, "overlay.json")
	if err := os.WriteFile(ovPath, ovJSON, 0o644); err != nil {
		return nil, err
	}
	for k, j := range jobs {
		bin := filepath.Join(outDir, fmt.Sprintf("twin%d.test", k))
		rel, _ := filepath.Rel(t.modDir, j.dir)
		cmd := exec.Command("go", "test", "-c", "-vet=off", "-overlay", ovPath, "-o", bin, "./"+filepath.ToSlash(rel))
		cmd.Dir = t.modDir
		cmd.Env = append(os.Environ(), goEnv...)
		out, err := cmd.CombinedOutput()
		if err != nil {
			return nil, fmt.Errorf("native twin build failed for %s: %v\n%s", j.pkg.Pkg.Path(), err, out)
		}
		tw.bins[j.pkg.Pkg.Path()] = bin
	}
	if t.kind == "cmd" || t.kind == "cmdlegacy" {
		// the REAL command, built from the working tree without any overlay
		bin := filepath.Join(outDir, "json-patch-real")
		cmd := exec.Command("go", "build", "-o", bin, "./cmd/json-patch")
		cmd.Dir = t.modDir
		cmd.Env = append(os.Environ(), goEnv...)
		if out, err := cmd.CombinedOutput(); err != nil {
			return nil, fmt.Errorf("building the command failed: %v\n%s", err, out)
		}
		tw.env = append(tw.env, "VX_CMD_BIN="+bin)
	}
	return tw, nil
}

func (t *Target) modulePath() string {
	if t.kind == "legacy" || t.kind == "cmdlegacy" {
		return legacyPath
	}
	return v5Path
}

// run executes the native twin on a replay file and returns its result.
func (tw *Twin) run(pkgPath string, rf *ReplayFile, replayPath string) (*NativeResult, error) {
	bin := tw.bins[pkgPath]
	if bin == "" {
		return nil, fmt.Errorf("no native twin for package %s", pkgPath)
	}
	if replayPath == "" {
		f, err := os.CreateTemp(tw.dir, "rp-*.json")
		if err != nil {
			return nil, err
		}
		b, _ := json.Marshal(rf)
		f.Write(b)
		f.Close()
		replayPath = f.Name()
		defer os.Remove(replayPath)
	}
	resPath := replayPath + ".result"
	defer os.Remove(resPath)
	cmd := exec.Command(bin)
	cmd.Env = append(append(os.Environ(), "VX_REPLAY="+replayPath, "VX_RESULT="+resPath), tw.env...)
	cmd.Dir = tw.dir
	done := make(chan error, 1)
	var out []byte
	go func() {
		var err error
		out, err = cmd.CombinedOutput()
		done <- err
	}()
	var runErr error
	select {
	case runErr = <-done:
	case <-time.After(60 * time.Second):
		cmd.Process.Kill()
		<-done
		return &NativeResult{Harness: rf.Harness, Panic: "native run timed out after 60s (hang)"}, nil
	}
	b, err := os.ReadFile(resPath)
	if err != nil {
		// the process died without writing a result (fatal error, os.Exit, stack overflow …)
		msg := string(out)
		if len(msg) > 600 {
			msg = msg[:600]
		}
		return &NativeResult{Harness: rf.Harness, Panic: fmt.Sprintf("native process died: %v: %s", runErr, msg), ExitErr: fmt.Sprint(runErr)}, nil
	}
	nr := &NativeResult{}
	if err := json.Unmarshal(b, nr); err != nil {
		return nil, err
	}
	return nr, nil
}

// compareRecord reports how a native run differs from the interpreter's record of the same path.
func compareRecord(r PathRecord, nr *NativeResult, props map[string]bool) string {
	var diffs []string
	if nr.Panic != "" {
		diffs = append(diffs, "native panic: "+nr.Panic)
	}
	if nr.AssumeFail {
		diffs = append(diffs, "native run failed an assumption")
	}
	// only assertions of the property being checked count: the same harness carries other properties'
	// assertions, which the symbolic run did not discharge on this path either
	var failed []string
	for _, f := range nr.Failed {
		if props == nil || props[propOf(f)] {
			failed = append(failed, f)
		}
	}
	if len(failed) > 0 {
		diffs = append(diffs, "native run failed assertions "+strings.Join(failed, ","))
	}
	if len(nr.Missing) > 0 {
		diffs = append(diffs, "native run asked for variables the path did not create: "+strings.Join(nr.Missing, ","))
	}
	if strings.Join(r.Reaches, ",") != strings.Join(nr.Reaches, ",") {
		diffs = append(diffs, fmt.Sprintf("witnesses differ: interp %v native %v", r.Reaches, nr.Reaches))
	}
	for k, v := range r.Obs {
		if strings.HasPrefix(k, "note:") {
			continue
		}
		if nv, ok := nr.Obs[k]; !ok || nv != v {
			diffs = append(diffs, fmt.Sprintf("observation %s differs: interp %q native %q", k, v, nv))
		}
	}
	for k := range nr.Obs {
		if _, ok := r.Obs[k]; !ok {
			diffs = append(diffs, "native-only observation "+k)
		}
	}
	return strings.Join(diffs, "; ")
}
